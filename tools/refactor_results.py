#!/usr/bin/env python3
"""Run every kept behaviour-preserving refactor (seeded/refactors/<name>/patch.diff) through the checks listed in
seeded/refactors/checks.json on a scratch copy of /repo and write seeded/refactors/RESULTS.md. Every VIOLATION is a
false alarm of the machinery."""
import json, os, subprocess, re
base = "/verif/seeded/refactors"
checks = json.load(open(base + "/checks.json"))
rows = []
# REFACTOR_OUT=<dir>: reuse <dir>/<name>.out where present (outputs of tools/refactor_one.sh, e.g. from a parallel run);
# REFACTOR_KEEP=1: rows of refactors without such an output are taken over from the existing RESULTS.md
outdir = os.environ.get("REFACTOR_OUT")
oldrows = {}
if os.environ.get("REFACTOR_KEEP") and os.path.exists(base + "/RESULTS.md"):
    for l in open(base + "/RESULTS.md"):
        c = [x.strip() for x in l.strip().strip("|").split("|")]
        if l.startswith("| ") and len(c) == 5 and c[0] in checks:
            oldrows[c[0]] = tuple(c)
for name in sorted(checks):
    meta = json.load(open("%s/%s/meta.json" % (base, name)))
    if outdir and os.path.exists("%s/%s.out" % (outdir, name)):
        out = open("%s/%s.out" % (outdir, name)).read()
    elif name in oldrows:
        rows.append(oldrows[name])
        continue
    else:
        p = subprocess.run(["/verif/tools/refactor_one.sh", name] + checks[name], capture_output=True, text=True)
        out = p.stdout + p.stderr
    viol = [l for l in out.splitlines() if "VIOLATION" in l]
    obl = []
    for l in viol:
        m = re.search(r"obligation=(\S+)", l)
        if m and m.group(1) not in obl:
            obl.append(m.group(1))
    ran = len([l for l in out.splitlines() if "vcgo check" in l])
    status = "quiet" if ran == len(checks[name]) and not viol else ("FALSE ALARM" if viol else "did not run: " + out.strip()[:80])
    summary = meta.get("summary", "").replace("|", "/").replace("\n", " ")
    if len(summary) > 200:
        summary = summary[:200] + "…"
    rows.append((name, " ".join(checks[name]), summary, status, "; ".join(obl[:3])))
with open(base + "/RESULTS.md", "w") as f:
    f.write("# Behaviour-preserving refactors written by independent sub-agents\n\n"
            "Each sub-agent was given a property's text and a scratch copy of /repo without the contract files and asked for a\n"
            "realistic restructuring that keeps the property true for every input (bit-identical results, same bytes consumed),\n"
            "compiles and passes the 129 tests. `tools/refactor_results.py` applies each one to a scratch copy of /repo and runs the\n"
            "listed checks: a VIOLATION here is a false alarm.\n\n"
            "| id | checks run | refactor | result | obligations that alarmed |\n|---|---|---|---|---|\n")
    for r in rows:
        f.write("| %s | %s | %s | %s | %s |\n" % r)
    f.write("\n%d of %d refactors leave every check quiet.\n" % (sum(1 for r in rows if r[3] == "quiet"), len(rows)))
    if os.path.exists(base + "/NOTES.md"):
        f.write(open(base + "/NOTES.md").read())
print("done", len(rows))
