#!/usr/bin/env python3
# Generates the per-row / per-pixel step contracts of the image worker closures
# (linear.TransformImageColor$1..$3 and the six converters in package prism).
import re

SANE = lambda r: "-0x40000000 <= %s.Min.X && %s.Min.X <= %s.Max.X && %s.Max.X <= 0x40000000 && -0x40000000 <= %s.Min.Y && %s.Min.Y <= %s.Max.Y && %s.Max.Y <= 0x40000000" % ((r,)*8)

def worker_loops(props, rect, pixel_steps, frame_step, window=False):
    o = []
    if window:
        o.append("//@   loop 1 invariant [%s] dst-window: bounds.Max.X + dstOffsetX <= dstImg.Rect.Max.X && bounds.Max.Y + dstOffsetY <= dstImg.Rect.Max.Y && bounds.Min.X + dstOffsetX == dstImg.Rect.Min.X && bounds.Min.Y + dstOffsetY == dstImg.Rect.Min.Y" % props)
        o.append("//@   loop 2 invariant [%s] dst-column: dstImg.Rect.Min.X <= j + dstOffsetX && j + dstOffsetX <= dstImg.Rect.Max.X && dstImg.Rect.Min.Y <= i + dstOffsetY && i + dstOffsetY < dstImg.Rect.Max.Y" % props)
    o.append("//@   loop 1 invariant [%s] rows-of-this-worker: %s.Min.Y + workerNum <= i && (iter == 0 ==> i == %s.Min.Y + workerNum)" % (props, rect, rect))
    o.append("//@   loop 1 step [%s] next-row-of-this-worker: i == prev(i) + workerCount" % props)
    o.append("//@   loop 1 decreases %s.Max.Y + workerCount - i" % rect)
    o.append("//@   loop 2 invariant [%s] columns: %s.Min.X <= j && j <= %s.Max.X" % (props, rect, rect))
    for lab, e in pixel_steps:
        o.append("//@   loop 2 step [%s] %s: %s" % (props.split(",")[0], lab, e))
    if frame_step:
        o.append("//@   loop 2 step [%s] only-that-pixel: %s" % (props, frame_step))
    o.append("//@   loop 2 step [%s] next-column: j == prev(j) + 1" % props.split(",")[0])
    o.append("//@   loop 2 decreases %s.Max.X - j" % rect)
    return o

def linear_contracts():
    out = []
    out.append("// ---- C10/C11: image transform workers ----")
    out.append("// Per-iteration (step) contracts: each iteration writes exactly the footprint of its destination")
    out.append("// pixel with the transformed source pixel, and the loops visit row Min.Y+workerNum, +workerCount, ...")
    out.append("// and every column of the row. A-IMG (PixOffset inside Pix for points of Rect) is an assumed contract.")
    out.append("// Captured variables: bounds (source bounds), dstOffsetX/Y, src/srcImg, dstImg, transformColor.\n")
    common_req = [
        "requires workers: 0 <= workerNum && workerNum < workerCount && workerCount <= 0x10000",
        "requires dst-covers-src: dstOffsetX == dstImg.Rect.Min.X - bounds.Min.X && dstOffsetY == dstImg.Rect.Min.Y - bounds.Min.Y && bounds.Max.X - bounds.Min.X <= dstImg.Rect.Max.X - dstImg.Rect.Min.X && bounds.Max.Y - bounds.Min.Y <= dstImg.Rect.Max.Y - dstImg.Rect.Min.Y",
        "requires sane-coordinates: " + SANE("bounds") + " && " + SANE("dstImg.Rect"),
    ]
    off = "dstImg.PixOffset(prev(j) + dstOffsetX, i + dstOffsetY)"
    def chan16(srcexpr):
        return [("pixel-written", " && ".join("be16(dstImg.Pix, %s%s) == transformColor(%s).%s" % (off, ("" if k == 0 else " + %d" % (2*k)), srcexpr, c) for k, c in enumerate("RGBA")))]
    def chan8(srcexpr):
        return [("pixel-written", " && ".join("dstImg.Pix[%s%s] == uint8(transformColor(%s).%s >> 8)" % (off, ("" if k == 0 else " + %d" % k), srcexpr, c) for k, c in enumerate("RGBA")))]
    frame = lambda n: "forall o int :: o < %s || o >= %s + %d ==> dstImg.Pix[o] == prev(dstImg.Pix[o])" % (off, off, n)
    # $1: RGBA64 -> RGBA64
    out.append("//@ func TransformImageColor$1")
    for r in common_req: out.append("//@   " + r)
    out.append("//@   requires bounds-is-src: bounds.Min.X == srcImg.Rect.Min.X && bounds.Min.Y == srcImg.Rect.Min.Y && bounds.Max.X == srcImg.Rect.Max.X && bounds.Max.Y == srcImg.Rect.Max.Y")
    out += worker_loops("C10,C11", "bounds", chan16("prev(srcImg.RGBA64At(j, i))"), frame(8), True)
    out.append("//@   ensures [C10] returns: true\n")
    # $2: any -> RGBA64
    out.append("//@ func TransformImageColor$2")
    for r in common_req: out.append("//@   " + r)
    out += worker_loops("C10,C11", "bounds", chan16("src.At(prev(j), i)"), frame(8), True)
    out.append("//@   ensures [C10] returns: true\n")
    # $3: any -> RGBA
    out.append("//@ func TransformImageColor$3")
    for r in common_req: out.append("//@   " + r)
    out += worker_loops("C10,C11", "bounds", chan8("src.At(prev(j), i)"), frame(4), True)
    out.append("//@   ensures [C10] returns: true\n")
    out.append("// Iteration space of the workers (mathematical integers): rows y0 + w + k*n for worker w of n")
    out.append("// partition [y0, y1).")
    out.append("//@ lemma [C10,C11,C15] rows-covered mode=real (y0 mathint, y mathint, n mathint): n >= 1 && y0 <= y ==> 0 <= (y - y0) % n && (y - y0) % n < n && (y - y0) / n >= 0 && y == y0 + (y - y0) % n + ((y - y0) / n) * n")
    out.append("//@ lemma [C10,C11,C15] rows-disjoint mode=real (y0 mathint, n mathint, w1 mathint, k1 mathint, w2 mathint, k2 mathint): n >= 1 && 0 <= w1 && w1 < n && 0 <= w2 && w2 < n && k1 >= 0 && k2 >= 0 && y0 + w1 + k1*n == y0 + w2 + k2*n ==> w1 == w2 && k1 == k2")
    return "\n".join(out) + "\n"

def prism_contracts():
    out = ["//go:build verif\n", "package prism\n",
           "// Contracts for the verification machinery in /verif (vcgo). Comment-only.",
           "// ---- C15/C11: conversion workers. Step contracts: each iteration writes exactly its output pixel with the",
           "// target colour model's conversion of the input pixel (the per-pixel meaning of draw.Draw with Src).",
           "// Captured variables: inputImg, outputImg (freshly allocated with the input's Rect).\n"]
    req = [
        "requires workers: 0 <= workerNum && workerNum < workerCount && workerCount <= 0x10000",
        "requires same-bounds: outputImg.Rect.Min.X == inputImg.Rect.Min.X && outputImg.Rect.Min.Y == inputImg.Rect.Min.Y && outputImg.Rect.Max.X == inputImg.Rect.Max.X && outputImg.Rect.Max.Y == inputImg.Rect.Max.Y",
        "requires sane-coordinates: " + SANE("outputImg.Rect"),
    ]
    off = "outputImg.PixOffset(prev(j), i)"
    frame = lambda n: "forall o int :: o < %s || o >= %s + %d ==> outputImg.Pix[o] == prev(outputImg.Pix[o])" % (off, off, n)
    def fn(name, steps, n, extra_req=()):
        out.append("//@ func " + name)
        for r in req: out.append("//@   " + r)
        for r in extra_req: out.append("//@   " + r)
        out.extend(worker_loops("C15,C11", "outputImg.Rect", steps, frame(n)))
        out.append("//@   ensures [C15] returns: true\n")
    # NRGBA <- YCbCr : high bytes of the 16-bit conversion, opaque
    ycc = "prev(inputImg.YCbCrAt(j, i))"
    fn("ConvertImageToNRGBA$1", [("pixel-written", " && ".join(
        ["outputImg.Pix[%s%s] == uint8(ret(%d, %s.RGBA()) >> 8)" % (off, "" if k == 0 else " + %d" % k, k, ycc) for k in range(3)]
        + ["outputImg.Pix[%s + 3] == 255" % off]))], 4,
        ["requires ycbcr-rep: true"])
    # RGBA <- RGBA64 : high bytes
    fn("ConvertImageToRGBA$1", [("pixel-written", " && ".join(
        "outputImg.Pix[%s%s] == uint8(prev(inputImg.RGBA64At(j, i)).%s >> 8)" % (off, "" if k == 0 else " + %d" % k, c) for k, c in enumerate("RGBA")))], 4)
    # RGBA64 <- NRGBA : premultiplied 16-bit
    fn("ConvertImageToRGBA64$1", [("pixel-written", " && ".join(
        "be16(outputImg.Pix, %s%s) == uint16(ret(%d, prev(inputImg.NRGBAAt(j, i)).RGBA()))" % (off, "" if k == 0 else " + %d" % (2*k), k) for k in range(4)))], 8)
    # RGBA64 <- RGBA : byte doubling == 16-bit RGBA()
    fn("ConvertImageToRGBA64$2", [("pixel-written", " && ".join(
        "be16(outputImg.Pix, %s%s) == uint16(ret(%d, prev(inputImg.RGBAAt(j, i)).RGBA()))" % (off, "" if k == 0 else " + %d" % (2*k), k) for k in range(4)))], 8)
    # RGBA64 <- YCbCr
    fn("ConvertImageToRGBA64$3", [("pixel-written", " && ".join(
        ["be16(outputImg.Pix, %s%s) == uint16(ret(%d, %s.RGBA()))" % (off, "" if k == 0 else " + %d" % (2*k), k, ycc) for k in range(3)]
        + ["be16(outputImg.Pix, %s + 6) == 65535" % off]))], 8)
    out.append("// YCbCrToRGB (8-bit) agrees with the high byte of YCbCr.RGBA() (16-bit), the value draw.Draw stores.")
    out.append("//@ lemma [C15] ycbcr-8bit-is-high-byte-of-16bit mode=ieee (y uint8, cb uint8, cr uint8): ret(0, color.YCbCrToRGB(y, cb, cr)) == uint8(ret(0, color.YCbCr{y, cb, cr}.RGBA()) >> 8) && ret(1, color.YCbCrToRGB(y, cb, cr)) == uint8(ret(1, color.YCbCr{y, cb, cr}.RGBA()) >> 8) && ret(2, color.YCbCrToRGB(y, cb, cr)) == uint8(ret(2, color.YCbCr{y, cb, cr}.RGBA()) >> 8)")
    return "\n".join(out) + "\n"

p = "/repo/linear/contracts_verif.go"
s = open(p).read()
i = s.find("// ---- C10")
if i >= 0:
    s = s[:i]
s = s.rstrip() + "\n\n" + linear_contracts()
open(p, "w").write(s)
open("/repo/contracts_verif.go", "w").write(prism_contracts())
print("ok")
