#!/usr/bin/env python3
"""Evaluate one seeded change: confirm it (builds, suite passes, demo fails with / passes without),
run the property's check against it, and store everything under /verif/seeded/<name>/."""
import json, os, shutil, subprocess, sys, tempfile, glob, re

ENV = dict(os.environ, GOFLAGS="-mod=mod", GOPROXY="off", GOSUMDB="off", GOTOOLCHAIN="local")

def run(cmd, cwd, timeout=1500):
    try:
        p = subprocess.run(cmd, cwd=cwd, shell=True, env=ENV, capture_output=True, text=True, timeout=timeout)
        return p.returncode, (p.stdout + p.stderr)
    except subprocess.TimeoutExpired:
        return 124, "timeout"

def main(src):
    name = os.path.basename(src.rstrip("/"))
    meta = json.load(open(os.path.join(src, "meta.json")))
    prop = meta.get("property", name.split("_")[0])
    sc = tempfile.mkdtemp(prefix="seed.")
    res = {"name": name, "property": prop}
    try:
        repo = os.path.join(sc, "repo")
        subprocess.run(["cp", "-r", "/repo/.", repo], check=True)
        subprocess.run("git checkout -q -- . && git clean -fdq", cwd=repo, shell=True)
        demo_cmd = open(os.path.join(src, "demo_cmd.txt")).read() if os.path.exists(os.path.join(src, "demo_cmd.txt")) else ""
        # place demo files: any *_test.go / *.go besides patch in src, destination guessed from demo_cmd or meta
        demo_files = [f for f in os.listdir(src) if f.endswith(".go")]
        def place():
            placed = []
            for f in demo_files:
                dest = None
                m = re.search(r"[Pp]lace\s+" + re.escape(f) + r"\s+at:?\s*(\S+)", demo_cmd)
                if m:
                    dest = m.group(1)
                if dest is None:
                    for cand in re.findall(r"[\w./-]+", demo_cmd):
                        if cand.endswith("/" + f):
                            dest = cand
                if dest is None:
                    m2 = re.search(r"go test[^\n]*?\s(\./[\w/.-]*)", demo_cmd)
                    d = m2.group(1) if m2 else "."
                    dest = os.path.join(d, f)
                dest = dest.replace("/tmp/wt/" + prop + "/", "")
                full = os.path.join(repo, dest)
                os.makedirs(os.path.dirname(full), exist_ok=True)
                shutil.copy(os.path.join(src, f), full)
                placed.append(dest)
            return placed
        # demo command line: the last line containing "go test" or "go run"
        cmdline = None
        for l in demo_cmd.splitlines():
            l = l.strip()
            if "go test" in l or "go run" in l:
                l = re.sub(r"^CMD:\s*", "", l)
                l = l[l.index("go "):] if not l.startswith("export") else l
                cmdline = l
        res["demo_cmd"] = cmdline
        placed = place()
        res["demo_files"] = placed
        if cmdline:
            cmdline = cmdline.replace("/tmp/wt/" + prop, repo)
            rc0, out0 = run(cmdline, repo, 600)
            res["demo_without_change"] = "pass" if rc0 == 0 else "FAIL"
        rc, out = run("git apply " + os.path.join(src, "patch.diff"), repo)
        res["applies"] = rc == 0
        if rc != 0:
            res["error"] = out[-500:]
            return res
        rc, out = run("go build ./...", repo)
        res["builds"] = rc == 0
        if cmdline:
            rc1, out1 = run(cmdline, repo, 600)
            res["demo_with_change"] = "pass" if rc1 == 0 else "FAIL"
            res["demo_output"] = out1[-600:]
        for f in placed:
            try: os.remove(os.path.join(repo, f))
            except OSError: pass
        rc, out = run("go test -vet=off -count=1 ./...", repo, 900)
        res["suite_passes"] = rc == 0
        if rc != 0:
            res["suite_output"] = out[-600:]
        # run the check
        vdir = os.path.join(sc, "verif")
        os.makedirs(vdir)
        shutil.copy("/verif/known_findings.json", vdir)
        env = dict(ENV, VCGO_REPO=repo, VCGO_VERIF=vdir)
        checks = [prop] + [p for p in sys.argv[2:]]
        res["checks"] = {}
        for c in checks:
            try:
                p = subprocess.run(["/verif/vcgo/vcgo", "check", c], cwd="/verif", env=env, capture_output=True, text=True, timeout=1800)
                lines = [l for l in p.stdout.splitlines() if l.startswith("VIOLATION")]
                res["checks"][c] = {"exit": p.returncode, "violations": [re.sub(r"replay=\S+ ", "", l)[:300] for l in lines[:6]], "summary": p.stdout.splitlines()[0][:200] if p.stdout else ""}
            except subprocess.TimeoutExpired:
                res["checks"][c] = {"exit": 124}
        res["caught"] = any(v.get("exit") == 1 for v in res["checks"].values())
    finally:
        shutil.rmtree(sc, ignore_errors=True)
    return res

if __name__ == "__main__":
    src = sys.argv[1]
    r = main(src)
    name = r["name"]
    valid = r.get("applies") and r.get("builds") and r.get("suite_passes") and r.get("demo_without_change") == "pass" and r.get("demo_with_change") == "FAIL"
    r["confirmed_valid"] = bool(valid)
    out = "/verif/seeded/" + name
    if valid:
        os.makedirs(out, exist_ok=True)
        for f in os.listdir(src):
            shutil.copy(os.path.join(src, f), out)
        meta = json.load(open(os.path.join(src, "meta.json")))
        meta["confirmed_by_verifier_author"] = {k: r[k] for k in ("applies", "builds", "suite_passes", "demo_without_change", "demo_with_change", "demo_cmd")}
        meta["check_result"] = {"caught": r["caught"], "checks": r["checks"]}
        json.dump(meta, open(os.path.join(out, "meta.json"), "w"), indent=1)
    print(json.dumps({k: r[k] for k in r if k not in ("demo_output", "suite_output")}, indent=1))
