#!/bin/bash
# usage: mut.sh <property-id> <file-relative-to-repo> <sed-expression> [more file/sed pairs...]
# Applies sed edits to a scratch copy of /repo, checks it still builds, runs the check there.
set -u
id=$1; shift
sc=$(mktemp -d /tmp/mut.XXXXXX)
cp -r /repo/. $sc/repo
mkdir -p $sc/verif
while [ $# -ge 2 ]; do
  f=$1; e=$2; shift 2
  sed -i -E "$e" $sc/repo/$f
done
(cd $sc/repo && git diff -- . ':!*contracts_verif.go' | grep '^[+-]' | grep -v '^+++\|^---' | head -20)
export GOFLAGS=-mod=mod GOPROXY=off GOSUMDB=off GOTOOLCHAIN=local
if ! (cd $sc/repo && go build ./... 2>&1 | head -5 | grep -q .); then :; else echo "BUILD FAILED"; (cd $sc/repo && go build ./... 2>&1 | head); fi
if [ "${RUNTESTS:-0}" = 1 ]; then (cd $sc/repo && go test -vet=off -count=1 ./... 2>&1 | grep -v '^ok\|no test files' | head -20); fi
cp /verif/known_findings.json $sc/verif/ 2>/dev/null
VCGO_REPO=$sc/repo VCGO_VERIF=$sc/verif /verif/vcgo/vcgo check $id ${TIER:+--tier $TIER} | tail -${TAIL:-6}
rm -rf $sc
