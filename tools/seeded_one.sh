#!/bin/bash
# usage: seeded_one.sh <seeded-id> [property]   -- apply one kept seeded change to a scratch copy and run the check there
set -u
sid=$1; prop=${2:-${sid%%_*}}
sc=$(mktemp -d /tmp/seed1.XXXXXX)
cp -r /repo/. $sc/repo; mkdir -p $sc/verif
(cd $sc/repo && git apply /verif/seeded/$sid/patch.diff) || { echo "patch does not apply"; rm -rf $sc; exit 2; }
cp /verif/known_findings.json $sc/verif/ 2>/dev/null
VCGO_REPO=$sc/repo VCGO_VERIF=$sc/verif /verif/vcgo/vcgo check $prop ${TIER:+--tier $TIER} | tail -${TAIL:-8}
if [ "${KEEP:-0}" = 1 ]; then echo "kept $sc"; else rm -rf $sc; fi
