#!/bin/bash
# Must-fail selftest of the engine and of the replay machinery: applies kept seeded changes to scratch
# copies of /repo and expects (a) the named obligation to fail and (b) where stated, the failure to be
# confirmed by a run of the real code (no "no-failing-input-found" suffix). Run after every engine change.
#   usage: tools/selftest.sh [fast|all]
set -u
mode=${1:-fast}
pass=0; failc=0
one() { # seeded-id property obligation-substring confirmed(yes|no|any)
  local sid=$1 prop=$2 pat=$3 conf=$4
  local out; out=$(TAIL=80 /verif/tools/seeded_one.sh $sid $prop 2>&1)
  local line; line=$(echo "$out" | grep "^VIOLATION" | grep -- "$pat" | head -1)
  if [ -z "$line" ]; then echo "FAIL $sid: no violation matching '$pat'"; failc=$((failc+1)); return; fi
  if [ "$conf" = yes ] && echo "$line" | grep -q "no-failing-input-found"; then echo "FAIL $sid: '$pat' reported but not confirmed on the real code"; failc=$((failc+1)); return; fi
  echo "ok   $sid: $(echo "$line" | sed 's/replay=[^ ]* //' | cut -c1-160)"; pass=$((pass+1))
}
one C16_1 C16 "readHeader#post:flag-depends" yes
one C13_1 C13 "componentToLAB#post:cie-f-lower" yes
one C20_2 C20 "Inverse#panic:allowed" any
one C12_1 C12 "AdaptBetweenXYYWhitePoints#post:same-as-xyz" yes
one C03_1 C03 "adobergb.ColorFromXYZ#post:linear-R" yes
if [ "$mode" = all ]; then
  one C02_1 C02 "NormalisedTo16Bit#post:clamp-hi" yes
  one C06_2 C06 "webpmeta.extractMetadata#post:profile-bytes" yes
  one C04_1 C04 "ColorFromNRGBA#post:channels" yes
  one C05_1 C05 "jpegmeta.readSegment#post:length-bearing" any
  one C11_1 C11 "encoded16ToLinearLUT#guard" any
  one C15_2 C15 "bounded.images#convert.rgba64-equals-draw" yes
  one C10_1 C10 "bounded.images#transform.equals-per-pixel-definition" yes
  one C11_4 C11 "bounded.race#detector-silent" yes
  one C08_3 C08 "bounded.icc#delivery.same-success-or-error" yes
  one C17_4 C17 "bounded.icc#description.is-the-declared-string" yes
  one C07_5 C07 "webpmeta.Load#post:replays-input" yes
  one C20_5 C20 "TransformToXYZForXYYPrimaries#post:red-chromaticity" yes
  one C09_5 C09 "parseMultiLocalisedUnicode#bounds" yes
  one C04_5 C04 "adobergb.Color.ToNRGBA#post:channels" yes
fi
# the unchanged tree must stay quiet
for p in C16 C13; do
  if /verif/vcgo/vcgo check $p | grep -q "^VIOLATION"; then echo "FAIL unchanged tree: $p alarms"; failc=$((failc+1)); else echo "ok   unchanged tree: $p quiet"; pass=$((pass+1)); fi
done
echo "selftest: $pass ok, $failc failed"
[ $failc -eq 0 ]
