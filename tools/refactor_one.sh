#!/bin/bash
# usage: refactor_one.sh <name> <property>...   -- apply a kept behaviour-preserving refactor to a scratch copy of /repo,
# confirm it builds and the suite passes, and run the given checks there: every VIOLATION is a false alarm.
set -u
name=$1; shift
sc=$(mktemp -d /tmp/rf1.XXXXXX)
cp -r /repo/. $sc/repo; mkdir -p $sc/verif
export GOFLAGS=-mod=mod GOPROXY=off GOSUMDB=off GOTOOLCHAIN=local
(cd $sc/repo && git apply /verif/seeded/refactors/$name/patch.diff) || { echo "$name: patch does not apply"; rm -rf $sc; exit 2; }
(cd $sc/repo && go build ./... && go test -vet=off -count=1 ./... >/dev/null 2>&1) || { echo "$name: build or suite fails"; rm -rf $sc; exit 2; }
cp /verif/known_findings.json $sc/verif/ 2>/dev/null
for p in "$@"; do
  VCGO_REPO=$sc/repo VCGO_VERIF=$sc/verif /verif/vcgo/vcgo check $p | grep "^vcgo check\|^VIOLATION" | sed "s|replay=[^ ]* ||" | cut -c1-260 | sed "s/^/$name $p: /"
done
rm -rf $sc
