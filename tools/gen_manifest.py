#!/usr/bin/env python3
import json, subprocess
props=[json.loads(l) for l in open('/verif/properties.jsonl')]
claimed = json.load(open('/verif/tools/claims.json'))
commits = subprocess.run(["git","-C","/repo","log","--format=%H %s"],capture_output=True,text=True).stdout.strip().split("\n")
hook_commits=[c.split()[0] for c in commits if c.split(" ",1)[1].startswith("verif:")]
m={
 "version":1,
 "setup_cmd":"cd /verif/vcgo && GOFLAGS=-mod=mod GOPROXY=off GOSUMDB=off GOTOOLCHAIN=local go build -o vcgo .",
 "hooks":{"guard":"verif","enable":"go build -tags verif: the hook commits add only comment-only contract files */contracts_verif.go (//go:build verif); vcgo loads /repo with -tags=verif",
   "baseline_off_cmd":"cd /repo && GOFLAGS=-mod=mod GOPROXY=off go test -vet=off -count=1 ./...","source_commits":hook_commits,"add_only":True},
 "engines":[{"name":"vcgo","path":"/verif/vcgo","serves_properties":sorted(claimed.keys()),"kind_free_text":"verification-condition generator over go/ssa (golang.org/x/tools v0.29.0) with Gobra-style contracts in comment-only files; obligations discharged by a portfolio of z3 4.8.12, z3 5.1.0, cvc5 1.0; failed obligations are replayed against the real code with go test -overlay; bounded stand-ins (curve tables, ICC profiles) run the real code over stated finite domains; one lemma (lemmas/Lifting.lean) is checked by Lean 4"}],
 "checks":[],
 "not_applicable":[],
 "notes":"Contract-based deductive verification of the real code; see DESIGN.md. Bounded stand-ins (labelled bounded in the evidence) are never counted as proved."
}
for p in props:
    i=p['id']
    if i in claimed:
        c=claimed[i]
        m["checks"].append({"property_id":i,"quick_cmd":"./vcgo/vcgo check %s --tier quick"%i,
          "thorough_cmd":"./vcgo/vcgo check %s --tier thorough"%i,
          "evidence_file":"/verif/evidence/%s.json"%i,
          "replay_cmd_template":"./vcgo/vcgo replay {path}",
          "engine":"vcgo",
          "level_claimed":{"category":c.get("category","proof"),"text":c["text"],"design_ref":c.get("design_ref","DESIGN.md section 8")},
          "level_note":c["note"],
          "technique":c.get("technique","contract-based deductive verification: VC generation over go/ssa against contracts, SMT portfolio (z3/cvc5)")})
    else:
        m["not_applicable"].append({"property_id":i,"reason":json.load(open('/verif/tools/na.json')).get(i,"not yet built in this round; see DESIGN.md section 11")})
json.dump(m,open('/verif/MANIFEST.json','w'),indent=1)
print("claimed",sorted(claimed.keys()))
