#!/usr/bin/env python3
"""Rebuild /verif/seeded/RESULTS.md: run every kept seeded change through tools/seeded_one.sh (or reuse
outputs in a directory given as argv[1]) and tabulate which obligations catch it and whether the failure was
confirmed by a run of the real code (replay)."""
import json, os, re, subprocess, sys, glob
outdir = sys.argv[1] if len(sys.argv) > 1 else None
rows = []
for d in sorted(glob.glob("/verif/seeded/C*_*")):
    name = os.path.basename(d)
    meta = json.load(open(os.path.join(d, "meta.json")))
    prop = meta.get("property", name.split("_")[0])
    out = None
    if outdir and os.path.exists(os.path.join(outdir, name + ".out")):
        out = open(os.path.join(outdir, name + ".out")).read()
    else:
        p = subprocess.run(["/verif/tools/seeded_one.sh", name, prop], capture_output=True, text=True, env=dict(os.environ, TAIL="80"))
        out = p.stdout + p.stderr
    viol = [l for l in out.splitlines() if l.startswith("VIOLATION")]
    conf = [l for l in viol if "no-failing-input-found" not in l]
    obl = []
    for l in (conf + viol):
        m = re.search(r"obligation=(\S+)", l)
        if m and m.group(1) not in obl:
            obl.append(m.group(1))
    summary = meta.get("summary", "").replace("|", "/").replace("\n", " ")
    if len(summary) > 170:
        summary = summary[:170] + "…"
    status = "caught" if viol else ("patch does not apply" if "patch does not apply" in out else "missed")
    rows.append((name, prop, summary, status, len(viol), len(conf), "; ".join(obl[:2])))
with open("/verif/seeded/RESULTS.md", "w") as f:
    f.write("# Seeded changes written by independent sub-agents\n\n")
    f.write("Each sub-agent was given only the text of a property and a scratch copy of /repo without the contract files (nothing from\n"
            "/verif) and asked for a change that breaks the property while compiling and passing the 129 tests, with a demonstration.\n"
            "`tools/seeded_eval.py` re-confirmed every one (applies, builds, suite passes, demonstration passes without and fails with\n"
            "the change) before keeping it here. This table is rebuilt by `tools/seeded_results.py`: each change is applied to a scratch\n"
            "copy of /repo and the property's quick check is run there. *replayed* counts the reported violations that were confirmed by\n"
            "running the real (changed) code on a concrete input (solver model or witness search), i.e. lines without\n"
            "`no-failing-input-found`.\n\n")
    f.write("| id | property | change | check | violations | replayed on real code | failing obligation(s) |\n|---|---|---|---|---|---|---|\n")
    for r in rows:
        f.write("| %s | %s | %s | %s | %d | %d | %s |\n" % r)
    caught = sum(1 for r in rows if r[3] == "caught")
    f.write("\n%d of %d kept changes are caught; %d of them with at least one violation confirmed on the real code.\n" % (caught, len(rows), sum(1 for r in rows if r[5] > 0)))
    f.write(open("/verif/seeded/NOTES.md").read() if os.path.exists("/verif/seeded/NOTES.md") else "")
print("rows", len(rows))
