/-
Lifting lemma for the image properties C10 / C15 (checked by `lean`, no Mathlib).

vcgo proves, per loop iteration of the real worker closures (step contracts):
  * the iteration for pixel p writes exactly the footprint F p of the destination buffer,
    with the bytes V p (conversion of the source pixel), and nothing else;
and, as integer lemmas, that the workers' rows partition the rectangle, so that the multiset of
iterations executed by all workers is the set of pixels of the rectangle, each exactly once.

This file proves the step from those per-iteration facts to the whole-image statement, for an
arbitrary order of the iterations (hence for every interleaving of the workers, whose writes are
to disjoint footprints): after all iterations, every pixel's footprint holds V p and every
location outside all footprints is unchanged.

`Loc` = index into Pix, `Val` = byte, `P` = pixel (iteration) identifier.
-/

theorem foldl_outside {Loc Val P : Type} (F : P → Loc → Prop)
    (step : (Loc → Val) → P → (Loc → Val))
    (hout : ∀ pix p l, ¬ F p l → step pix p l = pix l) :
    ∀ (ps : List P) (pix0 : Loc → Val) (l : Loc),
      (∀ p, p ∈ ps → ¬ F p l) → ps.foldl step pix0 l = pix0 l := by
  intro ps
  induction ps with
  | nil => intro pix0 l _; rfl
  | cons p ps ih =>
    intro pix0 l h
    have hp : ¬ F p l := h p (List.mem_cons_self ..)
    have hrest : ∀ q, q ∈ ps → ¬ F q l := fun q hq => h q (List.mem_cons_of_mem _ hq)
    simp only [List.foldl_cons]
    rw [ih (step pix0 p) l hrest]
    exact hout pix0 p l hp

theorem lifting {Loc Val P : Type} (F : P → Loc → Prop) (V : P → Loc → Val)
    (step : (Loc → Val) → P → (Loc → Val))
    (hin : ∀ pix p l, F p l → step pix p l = V p l)
    (hout : ∀ pix p l, ¬ F p l → step pix p l = pix l)
    (hdisj : ∀ p q l, p ≠ q → F p l → ¬ F q l) :
    ∀ (ps : List P), ps.Nodup → ∀ (pix0 : Loc → Val),
      (∀ p, p ∈ ps → ∀ l, F p l → ps.foldl step pix0 l = V p l) ∧
      (∀ l, (∀ p, p ∈ ps → ¬ F p l) → ps.foldl step pix0 l = pix0 l) := by
  intro ps hnd pix0
  refine ⟨?_, fun l h => foldl_outside F step hout ps pix0 l h⟩
  induction ps generalizing pix0 with
  | nil => intro p hp; cases hp
  | cons q ps ih =>
    intro p hp l hF
    have hq_notin : q ∉ ps := (List.nodup_cons.mp hnd).1
    have hnd' : ps.Nodup := (List.nodup_cons.mp hnd).2
    simp only [List.foldl_cons]
    rcases List.mem_cons.mp hp with hpq | hps
    · -- p is the first iteration: later iterations do not touch its footprint
      subst hpq
      have hrest : ∀ r, r ∈ ps → ¬ F r l := by
        intro r hr
        have hne : p ≠ r := fun e => hq_notin (e ▸ hr)
        exact hdisj p r l hne hF
      rw [foldl_outside F step hout ps (step pix0 p) l hrest]
      exact hin pix0 p l hF
    · exact ih hnd' (step pix0 q) p hps l hF

/-
In-place variant (source == destination): the value written for pixel p may depend on the buffer,
but only on p's own footprint (the iteration reads its pixel, then writes it). Then the result is
V evaluated on the ORIGINAL buffer, for any order of the iterations.
-/
theorem lifting_inplace {Loc Val P : Type} (F : P → Loc → Prop) (V : (Loc → Val) → P → Loc → Val)
    (step : (Loc → Val) → P → (Loc → Val))
    (hin : ∀ pix p l, F p l → step pix p l = V pix p l)
    (hout : ∀ pix p l, ¬ F p l → step pix p l = pix l)
    (hloc : ∀ pix pix' p, (∀ l, F p l → pix l = pix' l) → ∀ l, V pix p l = V pix' p l)
    (hdisj : ∀ p q l, p ≠ q → F p l → ¬ F q l) :
    ∀ (ps : List P), ps.Nodup → ∀ (pix0 : Loc → Val),
      (∀ p, p ∈ ps → ∀ l, F p l → ps.foldl step pix0 l = V pix0 p l) ∧
      (∀ l, (∀ p, p ∈ ps → ¬ F p l) → ps.foldl step pix0 l = pix0 l) := by
  intro ps hnd pix0
  refine ⟨?_, fun l h => foldl_outside F step hout ps pix0 l h⟩
  induction ps generalizing pix0 with
  | nil => intro p hp; cases hp
  | cons q ps ih =>
    intro p hp l hF
    have hq_notin : q ∉ ps := (List.nodup_cons.mp hnd).1
    have hnd' : ps.Nodup := (List.nodup_cons.mp hnd).2
    simp only [List.foldl_cons]
    rcases List.mem_cons.mp hp with hpq | hps
    · subst hpq
      have hrest : ∀ r, r ∈ ps → ¬ F r l := by
        intro r hr
        have hne : p ≠ r := fun e => hq_notin (e ▸ hr)
        exact hdisj p r l hne hF
      rw [foldl_outside F step hout ps (step pix0 p) l hrest]
      exact hin pix0 p l hF
    · -- p is processed later: the first iteration q left p's footprint as it was
      have hne : q ≠ p := fun e => hq_notin (e ▸ hps)
      have hagree : ∀ l', F p l' → step pix0 q l' = pix0 l' := by
        intro l' hF'
        have : ¬ F q l' := fun hq => hdisj q p l' hne hq hF'
        exact hout pix0 q l' this
      rw [ih hnd' (step pix0 q) p hps l hF]
      exact hloc (step pix0 q) pix0 p hagree l

#print axioms lifting
#print axioms lifting_inplace
