package main

// Solver portfolio: z3 4.8.12, z3-new 5.1.0, cvc5, raced per obligation.

import (
	"context"
	"fmt"
	"os"
	"os/exec"
	"path/filepath"
	"strings"
	"sync"
	"time"
)

type solverSpec struct {
	Name string
	Cmd  func(file string, timeoutSec int) []string
}

var solvers = []solverSpec{
	{"z3-new-5.1.0", func(f string, t int) []string { return []string{"z3-new", fmt.Sprintf("-T:%d", t), f} }},
	{"z3-4.8.12", func(f string, t int) []string { return []string{"/usr/bin/z3", fmt.Sprintf("-T:%d", t), f} }},
	{"cvc5-1.0", func(f string, t int) []string {
		return []string{"cvc5", fmt.Sprintf("--tlimit=%d", t*1000), "--produce-models", f}
	}},
}

type solveResult struct {
	Result  string
	Solver  string
	Seconds float64
	Output  string
}

func runSolver(ctx context.Context, s solverSpec, file string, timeoutSec int) solveResult {
	start := time.Now()
	args := s.Cmd(file, timeoutSec)
	cctx, cancel := context.WithTimeout(ctx, time.Duration(timeoutSec+5)*time.Second)
	defer cancel()
	cmd := exec.CommandContext(cctx, args[0], args[1:]...)
	out, _ := cmd.CombinedOutput()
	res := solveResult{Solver: s.Name, Seconds: time.Since(start).Seconds(), Output: string(out)}
	first := strings.TrimSpace(strings.SplitN(string(out), "\n", 2)[0])
	switch first {
	case "unsat", "sat", "unknown":
		res.Result = first
	case "timeout":
		res.Result = "timeout"
	default:
		if cctx.Err() != nil {
			res.Result = "timeout"
		} else if strings.Contains(first, "error") || strings.Contains(string(out), "(error") {
			res.Result = "error"
		} else if first == "" {
			res.Result = "timeout"
		} else {
			res.Result = "error"
		}
	}
	return res
}

// solveOne: quick single-solver attempt, then a race of all three.
func solveOne(o *Obligation, dir string, idx int, quickSec, fullSec int) {
	file := filepath.Join(dir, fmt.Sprintf("o%05d.smt2", idx))
	smt := o.smtText
	if err := os.WriteFile(file, []byte(smt), 0o644); err != nil {
		o.Result = "error"
		o.Output = err.Error()
		return
	}
	ctx := context.Background()
	var outputs []string
	definite := func(r solveResult) bool { return r.Result == "unsat" || r.Result == "sat" }
	var r solveResult
	total := 0.0
	if o.smtInst != "" {
		instFile := strings.TrimSuffix(file, ".smt2") + ".inst.smt2"
		os.WriteFile(instFile, []byte(o.smtInst), 0o644)
		ri := runSolver(ctx, solvers[0], instFile, quickSec)
		total += ri.Seconds
		outputs = append(outputs, fmt.Sprintf("[%s instantiated-hyps %.2fs] %s", ri.Solver, ri.Seconds, ri.Result))
		os.Remove(instFile)
		if ri.Result == "unsat" {
			o.Result, o.Solver, o.Seconds, o.Output = "unsat", ri.Solver+"(instantiated-hyps)", total, strings.Join(outputs, "\n")
			os.Remove(file)
			return
		}
	}
	r = runSolver(ctx, solvers[0], file, quickSec)
	outputs = append(outputs, fmt.Sprintf("[%s %.2fs] %s", r.Solver, r.Seconds, r.Result))
	total += r.Seconds
	if r.Result == "sat" && o.smtFull != "" {
		// the pruned query has a model: decide on the full assumption set
		r.Result = "unknown"
	}
	if !definite(r) && !o.Cover {
		if o.smtFull != "" {
			os.WriteFile(file, []byte(o.smtFull), 0o644)
		}
		rctx, cancel := context.WithCancel(ctx)
		ch := make(chan solveResult, len(solvers)+6)
		n := len(solvers)
		for _, s := range solvers {
			s := s
			go func() { ch <- runSolver(rctx, s, file, fullSec) }()
		}
		if o.smtNoLazy != "" {
			// weaker variant without the lazily included axioms: only an unsat answer counts
			nlFile := strings.TrimSuffix(file, ".smt2") + ".nl.smt2"
			os.WriteFile(nlFile, []byte(o.smtNoLazy), 0o644)
			defer os.Remove(nlFile)
			for _, s := range []solverSpec{solvers[0], solvers[1]} {
				s := s
				n++
				go func() {
					r := runSolver(rctx, s, nlFile, fullSec)
					if r.Result != "unsat" {
						r.Result = "unknown"
					}
					r.Solver += "(without-row-axioms)"
					ch <- r
				}()
			}
		}
		if o.smtNoQ != "" {
			// weaker variant without quantified assumptions: only an unsat answer counts
			nqFile := strings.TrimSuffix(file, ".smt2") + ".nq.smt2"
			os.WriteFile(nqFile, []byte(o.smtNoQ), 0o644)
			defer os.Remove(nqFile)
			for _, s := range []solverSpec{solvers[0], solvers[2]} {
				s := s
				n++
				go func() {
					r := runSolver(rctx, s, nqFile, fullSec)
					if r.Result != "unsat" {
						r.Result = "unknown"
					}
					r.Solver += "(no-quantified-hyps)"
					ch <- r
				}()
			}
		}
		var best solveResult
		got := false
		start := time.Now()
		for k := 0; k < n; k++ {
			rr := <-ch
			outputs = append(outputs, fmt.Sprintf("[%s %.2fs] %s", rr.Solver, rr.Seconds, rr.Result))
			if rr.Result == "error" {
				outputs = append(outputs, firstLines(rr.Output, 3))
			}
			if definite(rr) && !got {
				best = rr
				got = true
				cancel()
			}
		}
		cancel()
		total += time.Since(start).Seconds()
		if got {
			r = best
		} else {
			r.Result = "unknown"
			r.Solver = "portfolio"
		}
	}
	o.Result = r.Result
	o.Solver = r.Solver
	o.Seconds = total
	o.Output = strings.Join(outputs, "\n")
	if r.Result == "sat" {
		o.Model = r.Output
	}
	if r.Result == "unsat" && !o.Cover || r.Result == "sat" && o.Cover {
		os.Remove(file)
	}
}

func firstLines(s string, n int) string {
	ls := strings.Split(s, "\n")
	if len(ls) > n {
		ls = ls[:n]
	}
	return strings.Join(ls, "\n")
}

func solveAll(obls []*Obligation, dir string, workers, quickSec, fullSec int) {
	for _, o := range obls {
		o.noLazy = true
		o.smtText = o.SMT(true)
		var fullNoLazy string
		if !o.Cover {
			fullNoLazy = o.SMTFull(true)
		}
		o.noLazy = false
		if !o.Cover {
			full := o.SMTFull(true)
			if full != o.smtText {
				o.smtFull = full
			}
			if fullNoLazy != full && fullNoLazy != o.smtText {
				o.smtNoLazy = fullNoLazy
			}
		}
		if !o.Cover && (strings.Contains(o.smtText, ":pattern") || strings.Contains(o.smtFull, ":pattern")) {
			o.smtInst = o.SMTInst()
		}
		if !o.Cover && strings.Contains(o.smtText, "(forall ") {
			nq := o.smtVariant(false, true)
			if nq != o.smtText {
				o.smtNoQ = nq
			}
		}
	}
	var wg sync.WaitGroup
	ch := make(chan int)
	for w := 0; w < workers; w++ {
		wg.Add(1)
		go func() {
			defer wg.Done()
			for i := range ch {
				solveOne(obls[i], dir, i, quickSec, fullSec)
			}
		}()
	}
	for i := range obls {
		ch <- i
	}
	close(ch)
	wg.Wait()
}


// probePaths decides path feasibility quickly (z3 and cvc5 raced, short timeout). Only an
// unsat answer is used (to drop the path); anything else keeps the path.
func probePaths(obls []*Obligation) {
	if len(obls) == 0 {
		return
	}
	dir, err := os.MkdirTemp("", "vcgo-probe-")
	if err != nil {
		return
	}
	defer os.RemoveAll(dir)
	for _, o := range obls {
		o.smtText = o.SMT(false)
		if strings.Contains(o.smtText, ":pattern") {
			// infeasibility is also established by the weaker, quantifier-free instantiated query
			save := o.Cover
			o.Cover = false
			g := o.Goal
			o.Goal = TFalse()
			o.smtText = o.SMTInst()
			o.Goal = g
			o.Cover = save
		}
	}
	var wg sync.WaitGroup
	ch := make(chan int)
	for w := 0; w < 8; w++ {
		wg.Add(1)
		go func() {
			defer wg.Done()
			for i := range ch {
				o := obls[i]
				file := filepath.Join(dir, fmt.Sprintf("p%05d.smt2", i))
				os.WriteFile(file, []byte(o.smtText), 0o644)
				ctx, cancel := context.WithCancel(context.Background())
				rc := make(chan solveResult, 2)
				for _, s := range []solverSpec{solvers[0], solvers[2]} {
					s := s
					go func() { rc <- runSolver(ctx, s, file, 6) }()
				}
				o.Result = "unknown"
				for k := 0; k < 2; k++ {
					r := <-rc
					if r.Result == "unsat" || r.Result == "sat" {
						o.Result = r.Result
						o.Solver = r.Solver
						break
					}
				}
				cancel()
				o.smtText = ""
			}
		}()
	}
	for i := range obls {
		ch <- i
	}
	close(ch)
	wg.Wait()
}
