package main

// Function verification, lemma proving, package initialisation state.

import (
	"fmt"
	"go/types"
	"sort"
	"strings"

	"golang.org/x/tools/go/ssa"
)

type FuncReport struct {
	Key     string
	Mode    string
	Paths   int
	Panics  int
	Infeasible int
	Error   string // execution error => outside subset / undecided
	Notes   []string
	vc      *VC
}

func hasProp(props []string, id string) bool {
	for _, p := range props {
		if p == id {
			return true
		}
	}
	return false
}

// repoDeps returns repo packages in dependency order ending with sp.
func (e *Engine) repoDeps(sp *ssa.Package) []*ssa.Package {
	var order []*ssa.Package
	seen := map[*types.Package]bool{}
	var visit func(p *types.Package)
	visit = func(p *types.Package) {
		if seen[p] || !e.isRepoPkg(p) {
			return
		}
		seen[p] = true
		imps := p.Imports()
		sort.Slice(imps, func(i, j int) bool { return imps[i].Path() < imps[j].Path() })
		for _, i := range imps {
			visit(i)
		}
		if s := e.prog.Package(p); s != nil {
			order = append(order, s)
		}
	}
	visit(sp.Pkg)
	return order
}

// mutableGlobals: globals stored to outside package init (and its closures).
func (e *Engine) mutableGlobals(sp *ssa.Package) map[*ssa.Global]bool {
	res := map[*ssa.Global]bool{}
	var scan func(fn *ssa.Function, inInit bool)
	scan = func(fn *ssa.Function, inInit bool) {
		for _, b := range fn.Blocks {
			for _, ins := range b.Instrs {
				if s, ok := ins.(*ssa.Store); ok && !inInit {
					if g := rootGlobal(s.Addr); g != nil {
						res[g] = true
					}
				}
			}
		}
		for _, a := range fn.AnonFuncs {
			scan(a, inInit)
		}
	}
	for _, m := range sp.Members {
		switch x := m.(type) {
		case *ssa.Function:
			isInit := x.Name() == "init" || strings.HasPrefix(x.Name(), "init#")
			scan(x, isInit)
		case *ssa.Type:
			for _, T := range []types.Type{x.Type(), types.NewPointer(x.Type())} {
				ms := e.prog.MethodSets.MethodSet(T)
				for i := 0; i < ms.Len(); i++ {
					if f := e.prog.MethodValue(ms.At(i)); f != nil && f.Pkg == sp {
						scan(f, false)
					}
				}
			}
		case *ssa.Global:
			if isNamed(x.Type().(*types.Pointer).Elem(), "sync", "Once") {
				res[x] = true
			}
		}
	}
	return res
}

// rootGlobal follows FieldAddr/IndexAddr chains (including through a loaded slice/pointer
// global) to the global that owns the stored-to location.
func rootGlobal(v ssa.Value) *ssa.Global {
	for i := 0; i < 20; i++ {
		switch x := v.(type) {
		case *ssa.Global:
			return x
		case *ssa.FieldAddr:
			v = x.X
		case *ssa.IndexAddr:
			v = x.X
		case *ssa.UnOp:
			v = x.X
		case *ssa.Slice:
			v = x.X
		default:
			return nil
		}
	}
	return nil
}

// initState executes the inits of sp and its repo dependencies.
func (vc *VC) initState(sp *ssa.Package) (*State, error) {
	return vc.runInits(sp, true)
}

// addInits runs the initialisers of sp and its dependencies that have not run in st yet.
func (vc *VC) addInits(st *State, sp *ssa.Package) error {
	for _, p := range vc.eng.repoDeps(sp) {
		initFn := p.Func("init")
		if initFn == nil {
			continue
		}
		// already initialised in this state: one of its globals has a cell
		done := false
		for _, m := range p.Members {
			if g, ok := m.(*ssa.Global); ok {
				if c, ok := vc.globals[g]; ok {
					if _, ok := st.mem[c]; ok {
						done = true
					}
				}
			}
		}
		if done {
			continue
		}
		var err error
		func() {
			defer func() {
				if r := recover(); r != nil {
					if x, ok := r.(execError); ok {
						err = fmt.Errorf("init of %s: %s", p.Pkg.Name(), x.msg)
						return
					}
					panic(r)
				}
			}()
			vc.dry++
			vc.initRunning = p
			outs := vc.callFunction(initFn, nil, nil, st, nil)
			vc.initRunning = nil
			vc.initDone[p] = true
			vc.dry--
			var ok []Outcome
			for _, o := range outs {
				if !o.Panic {
					ok = append(ok, o)
				}
			}
			if len(ok) != 1 {
				err = fmt.Errorf("init of %s has %d normal paths", p.Pkg.Name(), len(ok))
				return
			}
			*st = *ok[0].St
		}()
		if err != nil {
			return err
		}
	}
	return nil
}

func (vc *VC) runInits(sp *ssa.Package, includeSelf bool) (*State, error) {
	st := &State{mem: map[*Cell]Val{}}
	var err error
	deps := vc.eng.repoDeps(sp)
	if !includeSelf {
		deps = deps[:len(deps)-1]
	}
	for _, p := range deps {
		initFn := p.Func("init")
		if initFn == nil {
			vc.initDone[p] = true
			continue
		}
		func() {
			defer func() {
				if r := recover(); r != nil {
					switch x := r.(type) {
					case execError:
						err = fmt.Errorf("init of %s: %s", p.Pkg.Name(), x.msg)
					case specError:
						err = fmt.Errorf("init of %s: spec: %s", p.Pkg.Name(), x.msg)
					default:
						panic(r)
					}
				}
			}()
			vc.dry++
			vc.initRunning = p
			outs := vc.callFunction(initFn, nil, nil, st, nil)
			vc.initRunning = nil
			vc.initDone[p] = true
			vc.dry--
			var ok []Outcome
			for _, o := range outs {
				if !o.Panic {
					ok = append(ok, o)
				}
			}
			if len(ok) != 1 {
				err = fmt.Errorf("init of %s has %d normal paths (want 1)", p.Pkg.Name(), len(ok))
				return
			}
			st = ok[0].St
		}()
		if err != nil {
			return nil, err
		}
	}
	return st, nil
}

func (vc *VC) pkgInvs(sp *ssa.Package) []*PkgInv {
	var res []*PkgInv
	deps := map[*ssa.Package]bool{}
	for _, p := range vc.eng.repoDeps(sp) {
		deps[p] = true
	}
	for _, inv := range vc.eng.invs {
		if deps[inv.Pkg] && modeMatch(inv.Modes, vc.mode.Name) {
			res = append(res, inv)
		}
	}
	return res
}

func (vc *VC) evalInv(inv *PkgInv, st *State) Term {
	env := &SpecEnv{vc: vc, st: st, pkg: inv.Pkg, fr: &Frame{ghost: map[string]Val{}}}
	return env.term(inv.Expr)
}

// entryState: post-init state with mutable globals havocked under the package invariants.
func (vc *VC) entryState(sp *ssa.Package) (*State, error) {
	if vc.entryCache == nil {
		vc.entryCache = map[*ssa.Package]*State{}
		vc.entryErr = map[*ssa.Package]error{}
	}
	if e, ok := vc.entryErr[sp]; ok {
		return nil, e
	}
	if c, ok := vc.entryCache[sp]; ok {
		return c.Clone(), nil
	}
	st, err := vc.entryStateUncached(sp)
	if err != nil {
		vc.entryErr[sp] = err
		return nil, err
	}
	vc.entryCache[sp] = st
	return st.Clone(), nil
}

func (vc *VC) entryStateUncached(sp *ssa.Package) (*State, error) {
	st, err := vc.initState(sp)
	if err != nil {
		return nil, err
	}
	for _, p := range vc.eng.repoDeps(sp) {
		mg := vc.eng.mutableGlobals(p)
		var gs []*ssa.Global
		for g := range mg {
			gs = append(gs, g)
		}
		sort.Slice(gs, func(i, j int) bool { return gs[i].Name() < gs[j].Name() })
		for _, g := range gs {
			c := vc.globalCell(st, g)
			vc.havocCell(st, c)
		}
	}
	for _, inv := range vc.pkgInvs(sp) {
		st.Assume(vc.evalInv(inv, st))
	}
	st.written = map[*Cell]bool{}
	return st, nil
}

func unionProps(fc *FuncContract) []string {
	m := map[string]bool{}
	for _, c := range fc.Clauses {
		if c.Kind == "assumes" {
			continue
		}
		for _, p := range c.Props {
			m[p] = true
		}
	}
	for _, lc := range fc.Loops {
		for _, c := range lc.Invariants {
			for _, p := range c.Props {
				m[p] = true
			}
		}
		for _, c := range lc.Steps {
			for _, p := range c.Props {
				m[p] = true
			}
		}
	}
	for _, p := range fc.Props {
		m[p] = true
	}
	return sortedKeys(m)
}

// verifyFunction generates the obligations of one function under one mode: one general
// run plus one run per declared case (a case binds a symbolic input to a constant so that
// the executor's constant folding applies; clauses marked case=NAME are checked there).
func (vc *VC) verifyFunction(fn *ssa.Function) (rep *FuncReport) {
	key := fn.Pkg.Pkg.Name() + "." + fnKey(fn)
	rep = &FuncReport{Key: key, Mode: vc.mode.Name}
	fc := vc.eng.contractFor(fn, vc.mode)
	if fc == nil {
		fc = &FuncContract{Key: key, Fn: fn, Loops: map[int]*LoopContract{}}
	}
	// the general (unconditional) run is skipped in a mode whose clauses all belong to scenarios
	general := len(fc.Clauses) == 0
	for _, c := range fc.Clauses {
		if c.Case == "" {
			general = true
		}
	}
	for _, lc := range fc.Loops {
		if len(lc.Invariants) > 0 || len(lc.Steps) > 0 {
			general = true
		}
	}
	if general {
		vc.verifyRun(fn, fc, key, "", rep)
	}
	for _, cd := range fc.Cases {
		if rep.Error != "" {
			break
		}
		vc.verifyRun(fn, fc, key, cd.Name, rep)
	}
	for _, sc := range fc.Scenarios {
		if rep.Error != "" {
			break
		}
		// a scenario is run only in the modes that have clauses for it
		has := false
		for _, c := range fc.Clauses {
			if c.Case == sc {
				has = true
			}
		}
		if !has {
			continue
		}
		if fc.ThoroughOnly[sc] && vc.eng.tier != "thorough" {
			continue
		}
		vc.verifyRun(fn, fc, key, sc, rep)
	}
	return rep
}

func substVal(v Val, name string, c Term) Val {
	switch x := v.(type) {
	case Term:
		if x.E == name {
			r := c
			r.Signed = x.Signed
			return r
		}
		return x
	case StructVal:
		r := StructVal{F: make([]Val, len(x.F))}
		for i := range x.F {
			r.F[i] = substVal(x.F[i], name, c)
		}
		return r
	case ArrVal:
		r := ArrVal{E: make([]Val, len(x.E))}
		for i := range x.E {
			r.E[i] = substVal(x.E[i], name, c)
		}
		return r
	case TupleVal:
		r := make(TupleVal, len(x))
		for i := range x {
			r[i] = substVal(x[i], name, c)
		}
		return r
	}
	return v
}

func (vc *VC) verifyRun(fn *ssa.Function, fc *FuncContract, key, caseName string, rep *FuncReport) {
	vc.steps = 0 // the step budget is per run: one function leaving the subset must not fail the others
	vc.curFunc = key
	if caseName != "" {
		vc.curFunc = key + "[" + caseName + "]"
	}
	vc.curProps = unionProps(fc)
	defer func() {
		if r := recover(); r != nil {
			switch x := r.(type) {
			case execError:
				rep.Error = x.msg
			case specError:
				rep.Error = "spec: " + x.msg
			default:
				// an internal inconsistency (e.g. a clause that no longer type-checks against the code it is
				// attached to) is a generation failure of this function, not a crash of the check
				rep.Error = fmt.Sprintf("internal: %v", r)
			}
		}
		rep.Notes = append(rep.Notes, vc.notes...)
	}()
	if gone := vc.eng.vanishedLoops(fn, fc); len(gone) > 0 {
		panic(execError{fmt.Sprintf("the contract has clauses for loop %v of %s, which no longer exists (removed or moved into another function)", gone, fn.Name())})
	}
	if d := vc.eng.droppedLoopHints(fn, fc); len(d) > 0 {
		vc.notes = append(vc.notes, fmt.Sprintf("clauses written for loop %v of %s are not used: that loop no longer exists in this function (invariants and variants are proof hints; step clauses are dropped only for properties that keep a bounded stand-in)", d, fn.Name()))
	}
	if vc.eng.loopAlign(fn); vc.eng.loopAl[fn].ambiguous && len(fc.Loops) > 0 {
		vc.notes = append(vc.notes, "the number of loops of "+fn.Name()+" changed and the loops cannot be matched unambiguously with the ones the contract was written for; loop clauses are applied by ordinal")
	}
	isInit := fn.Name() == "init" && fn.Synthetic != ""
	var st *State
	var err error
	if isInit {
		st, err = vc.initStateExcluding(fn.Pkg)
	} else {
		st, err = vc.entryState(fn.Pkg)
	}
	if err != nil {
		rep.Error = err.Error()
		return
	}
	var args []Val
	for _, p := range fn.Params {
		args = append(args, vc.fresh(p.Type(), p.Name(), st))
	}
	for _, dd := range fc.DynTypes {
		if dd.Case != caseName {
			continue
		}
		T := vc.eng.lookupType(fn.Pkg, dd.Type)
		if T == nil {
			panic(specError{"dyn: unknown type " + dd.Type})
		}
		found := false
		for i, p := range fn.Params {
			if p.Name() == dd.Param {
				args[i] = IfaceVal{Dyn: T, V: vc.fresh(T, p.Name()+".dyn", st)}
				found = true
			}
		}
		if !found {
			panic(specError{"dyn: no parameter " + dd.Param})
		}
	}
	var bind []Val
	for _, fv := range fn.FreeVars {
		bind = append(bind, vc.fresh(fv.Type(), fv.Name(), st))
	}
	for _, al := range fc.Aliases {
		if al.Case != caseName {
			continue
		}
		// the second name denotes the same object as the first (in-place use: source == destination)
		var from Val
		for i, p := range fn.Params {
			if p.Name() == al.Param {
				from = args[i]
			}
		}
		for i, fv := range fn.FreeVars {
			if fv.Name() == al.Param {
				from = bind[i]
			}
		}
		if from == nil {
			panic(specError{"alias: unknown name " + al.Param})
		}
		done := false
		for i, p := range fn.Params {
			if p.Name() == al.Type {
				args[i] = from
				done = true
			}
		}
		for i, fv := range fn.FreeVars {
			if fv.Name() == al.Type {
				bind[i] = from
				done = true
			}
		}
		if !done {
			panic(specError{"alias: unknown name " + al.Type})
		}
	}
	top := &Frame{fn: fn, env: map[ssa.Value]Val{}, ghost: map[string]Val{}}
	for i, p := range fn.Params {
		top.env[p] = args[i]
	}
	for i, fv := range fn.FreeVars {
		top.env[fv] = bind[i]
	}
	for _, g := range fc.Ghosts {
		T := vc.eng.lookupType(fn.Pkg, g.Type)
		if T == nil {
			panic(specError{"unknown ghost type " + g.Type})
		}
		top.ghost[g.Name] = vc.fresh(T, "ghost."+g.Name, st)
	}
	top.entrySt = st
	if caseName != "" {
		for _, cd := range fc.Cases {
			if cd.Name != caseName {
				continue
			}
			env := &SpecEnv{vc: vc, fr: top, st: st, old: st, pkg: fn.Pkg}
			lhs := env.term(cd.LHS)
			rv := env.eval(cd.RHS)
			rhs := env.asTerm(env.coerce(rv, SV{V: lhs}), "case constant")
			if !vc.declNames[lhs.E] && !vc.isDeclared(lhs.E) {
				panic(specError{"case " + caseName + ": left-hand side is not a symbolic input constant"})
			}
			if !rhs.IsConst() {
				panic(specError{"case " + caseName + ": right-hand side is not a constant"})
			}
			for i := range args {
				args[i] = substVal(args[i], lhs.E, rhs)
				top.env[fn.Params[i]] = args[i]
			}
			for k, v := range vc.pureCache {
				nv := make([]Val, len(v))
				for i := range v {
					nv[i] = substVal(v[i], lhs.E, rhs)
				}
				vc.pureCache[k] = nv
			}
			// pointee cells of pointer parameters
			for c, v := range st.mem {
				if c.Kind == "param" {
					st.mem[c] = substVal(v, lhs.E, rhs)
				}
			}
			defer func(name string) {
				// the binding is local to this run
				for k := range vc.pureCache {
					if strings.HasPrefix(k, "symiface|") {
						delete(vc.pureCache, k)
					}
				}
			}(lhs.E)
		}
	}
	vc.curCase = caseName
	for _, gf := range fc.GhostFuns {
		top.ghost["fun:"+gf.Name] = gf
	}
	for _, c := range fc.Clauses {
		if c.Kind == "requires" && (c.Case == "" || c.Case == caseName) {
			st.Assume(vc.evalSpecTerm(top, st, c.Expr, nil))
		}
	}
	entry := st.Clone()
	if vc.dry == 0 {
		if vc.entries == nil {
			vc.entries = map[string]*replayEntry{}
		}
		ent := &replayEntry{fn: fn, fc: fc, caseName: caseName, st: entry, pkg: fn.Pkg, mode: vc.mode.Name}
		for i, p := range fn.Params {
			ent.params = append(ent.params, replayParam{Name: p.Name(), T: p.Type(), V: args[i]})
		}
		for _, g := range fc.Ghosts {
			ent.ghosts = append(ent.ghosts, replayParam{Name: g.Name, T: vc.eng.lookupType(fn.Pkg, g.Type), V: top.ghost[g.Name]})
		}
		vc.entries[vc.curFunc] = ent
	}
	vc.eng.forceInline[fn] = true
	outs := vc.callFunctionTop(fn, args, bind, st, top, entry)
	delete(vc.eng.forceInline, fn)
	rep.Paths += len(outs)
	invs := vc.pkgInvsOf(fn.Pkg)
	ncover := 0
	// In scenario runs most error paths are infeasible under the well-formedness
	// preconditions: decide that once per path instead of once per postcondition.
	infeasible := map[int]bool{}
	if caseName != "" && vc.dry == 0 && len(outs) > 1 {
		var probes []*Obligation
		var idxs []int
		for i, o := range outs {
			if o.St.Infeasible() {
				continue
			}
			po := &Obligation{Func: vc.curFunc, Kind: "cover", Label: fmt.Sprintf("feasible%d", i), Mode: vc.mode.Name,
				Goal: TTrue(), NDecl: len(vc.decls), vc: vc, Cover: true}
			po.Assumes = append([]Term(nil), o.St.pc...)
			po.Name = fmt.Sprintf("%s#feasible:path%d", vc.curFunc, i)
			probes = append(probes, po)
			idxs = append(idxs, i)
		}
		probePaths(probes)
		for k, po := range probes {
			if po.Result == "unsat" {
				infeasible[idxs[k]] = true
				rep.Infeasible++
				// a return path refuted under the scenario's preconditions is a discharged obligation
				kind := "path-infeasible"
				if outs[idxs[k]].Panic {
					kind = "panic-path-infeasible"
				}
				vc.trivial = append(vc.trivial, &Obligation{Func: vc.curFunc, Kind: kind, Label: po.Label, Mode: vc.mode.Name, Props: vc.curProps,
					Name: fmt.Sprintf("%s#%s:%s", vc.curFunc, kind, po.Label), Result: "unsat", Solver: po.Solver, vc: vc, Goal: TFalse()})
			}
		}
	}
	for oi, o := range outs {
		if o.St.Infeasible() || infeasible[oi] {
			continue
		}
		pf := &Frame{fn: fn, env: top.env, ghost: top.ghost, entrySt: entry}
		if o.Panic {
			rep.Panics++
			if fc.MayPanic {
				continue // recovered by the callers (structural obligation)
			}
			var conds []Term
			for _, c := range fc.Clauses {
				if c.Kind == "panics_when" && (c.Case == "" || c.Case == caseName) {
					conds = append(conds, vc.evalSpecTerm(pf, entry, c.Expr, nil))
				}
			}
			vc.addObligation(o.St, "panic", "allowed", "", Or(conds...), vc.curProps)
			continue
		}
		bound := vc.bindResults(fn, o.Ret)
		if fc.Delegates != nil && caseName == "" {
			vc.addObligation(o.St, "post", "delegates.called-exactly-once", "", TBool(o.St.delegCalls == 1), vc.curProps)
		}
		for _, c := range fc.Clauses {
			if c.Case != caseName {
				continue
			}
			switch c.Kind {
			case "ensures":
				t := vc.evalSpecTerm(pf, o.St, c.Expr, bound)
				vc.addObligation(o.St, "post", c.Label, "", t, c.Props)
			case "panics_when":
				t := vc.evalSpecTerm(pf, entry, c.Expr, nil)
				vc.addObligation(o.St, "post", "returns-only-when-not:"+c.Label, "", Not(t), c.Props)
			}
		}
		wroteGlobal := isInit
		for c := range o.St.written {
			if c.Kind == "global" {
				wroteGlobal = true
			}
		}
		if wroteGlobal && caseName == "" {
			for _, inv := range invs {
				kind := "inv-pres"
				if isInit {
					kind = "inv-init"
				}
				vc.addObligation(o.St, kind, "pkg."+inv.Label, "", vc.evalInv(inv, o.St), inv.Props)
			}
		}
		maxCover := 3
		if caseName != "" {
			maxCover = 60
		}
		if ncover < maxCover && vc.dry == 0 {
			ncover++
			co := &Obligation{Func: vc.curFunc, Kind: "cover", Label: fmt.Sprintf("path%d", ncover), Mode: vc.mode.Name,
				Goal: TTrue(), NDecl: len(vc.decls), vc: vc, Props: vc.curProps, Cover: true}
			co.Assumes = append([]Term(nil), o.St.pc...)
			co.Name = fmt.Sprintf("%s#cover:path%d", vc.curFunc, ncover)
			vc.obls = append(vc.obls, co)
		}
	}
}

func (vc *VC) isDeclared(name string) bool {
	vc.declInfos(len(vc.decls))
	return vc.declNames[name]
}

func (vc *VC) pkgInvsOf(sp *ssa.Package) []*PkgInv {
	var res []*PkgInv
	for _, inv := range vc.eng.invs {
		if inv.Pkg == sp && modeMatch(inv.Modes, vc.mode.Name) {
			res = append(res, inv)
		}
	}
	return res
}

// initStateExcluding: state after the inits of sp's dependencies, before sp's own init.
func (vc *VC) initStateExcluding(sp *ssa.Package) (*State, error) {
	st, err := vc.runInits(sp, false)
	if err != nil {
		return nil, err
	}
	st.written = map[*Cell]bool{}
	vc.initRunning = sp
	return st, nil
}

func (vc *VC) callFunctionTop(fn *ssa.Function, args []Val, bind []Val, st *State, top *Frame, entry *State) []Outcome {
	fr := &Frame{fn: fn, env: map[ssa.Value]Val{}, visits: map[*ssa.BasicBlock]int{}, depth: 0,
		loopM0: map[*ssa.BasicBlock]Term{}, loopIn: map[*ssa.BasicBlock]bool{}, args: args, ghost: top.ghost}
	fr.contract = vc.eng.contractFor(fn, vc.mode)
	for k, v := range top.env {
		fr.env[k] = v
	}
	fr.protected = vc.eng.hasRecover(fn)
	if fr.contract != nil && fr.contract.MayPanic {
		fr.protected = true
	}
	fr.entrySt = entry
	if len(fn.Blocks) == 0 {
		panic(execError{"no body for " + fn.String()})
	}
	return vc.execFrom(fr, st, fn.Blocks[0], 0)
}

// proveLemma: a universally quantified statement over spec expressions (which may apply
// real repo functions, executed symbolically).
func (vc *VC) proveLemma(lm *Lemma) (rep *FuncReport) {
	key := lm.Pkg.Pkg.Name() + ".lemma." + lm.Name
	rep = &FuncReport{Key: key, Mode: vc.mode.Name}
	vc.curFunc = key
	vc.curProps = lm.Props
	defer func() {
		if r := recover(); r != nil {
			switch x := r.(type) {
			case execError:
				rep.Error = x.msg
			case specError:
				rep.Error = "spec: " + x.msg
			default:
				// an internal inconsistency (e.g. a clause that no longer type-checks against the code it is
				// attached to) is a generation failure of this function, not a crash of the check
				rep.Error = fmt.Sprintf("internal: %v", r)
			}
		}
	}()
	st, err := vc.entryState(lm.Pkg)
	if err != nil {
		rep.Error = err.Error()
		return
	}
	for _, u := range lm.Uses {
		up := vc.eng.byName[u]
		if up == nil {
			rep.Error = "lemma uses unknown package " + u
			return
		}
		if err := vc.addInits(st, up); err != nil {
			rep.Error = err.Error()
			return
		}
	}
	bound := map[string]SV{}
	lent := &replayEntry{lemma: lm, pkg: lm.Pkg, mode: vc.mode.Name}
	defer func() {
		lent.st = st.Clone()
		for _, p := range lm.Params {
			rp := replayParam{Name: p.Name, V: bound[p.Name].V, T: bound[p.Name].T}
			if p.Type == "mathint" || p.Type == "mathreal" {
				rp.Spec = p.Type
			}
			lent.params = append(lent.params, rp)
		}
		if vc.entries == nil {
			vc.entries = map[string]*replayEntry{}
		}
		vc.entries[key] = lent
	}()
	for _, p := range lm.Params {
		switch p.Type {
		case "mathint":
			bound[p.Name] = SV{V: vc.freshTerm(p.Name, SInt)}
			continue
		case "mathreal":
			bound[p.Name] = SV{V: vc.freshTerm(p.Name, SReal)}
			continue
		}
		T := vc.eng.lookupType(lm.Pkg, p.Type)
		if T == nil {
			panic(specError{"unknown type " + p.Type + " in lemma " + lm.Name})
		}
		bound[p.Name] = SV{V: vc.fresh(T, p.Name, st), T: T}
	}
	env := &SpecEnv{vc: vc, st: st, pkg: lm.Pkg, bound: bound, fr: &Frame{ghost: map[string]Val{}, entrySt: st}}
	// lemma of the form A ==> B: A is assumed (so side conditions of B's evaluation see it)
	se := lm.Expr
	for se.Kind == "imp" {
		st.Assume(env.term(se.A))
		se = se.B
	}
	goal := env.term(se)
	vc.addObligation(st, "lemma", lm.Name, "", goal, lm.Props)
	co := &Obligation{Func: key, Kind: "cover", Label: "hyp", Mode: vc.mode.Name, Goal: TTrue(), NDecl: len(vc.decls), vc: vc, Props: lm.Props, Cover: true}
	co.Assumes = append([]Term(nil), st.pc...)
	co.Name = key + "#cover:hyp"
	vc.obls = append(vc.obls, co)
	rep.Paths = 1
	return rep
}
