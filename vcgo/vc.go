package main

// VC context: declarations, modes, type mapping, fresh/zero values, memory access, obligations.

import (
	"fmt"
	"os"
	"runtime/debug"
	"go/constant"
	"go/token"
	"go/types"
	"math/big"
	"regexp"
	"sort"
	"strings"

	"golang.org/x/tools/go/ssa"
)

type Mode struct {
	Name      string
	IntMath   bool // Go integers as mathematical Int
	FloatReal bool // Go floats as Real
	Rnd       bool // with uninterpreted rounding operator
}

var (
	ModeIEEE = Mode{Name: "ieee"}
	ModeReal = Mode{Name: "real", IntMath: true, FloatReal: true}
	ModeRnd  = Mode{Name: "rnd", IntMath: true, FloatReal: true, Rnd: true}
	// BV integers, real floats: algebra over parsed bytes
	ModeBVReal = Mode{Name: "bvreal", FloatReal: true}
)

func modeByName(n string) Mode {
	switch n {
	case "ieee", "":
		return ModeIEEE
	case "real":
		return ModeReal
	case "rnd":
		return ModeRnd
	case "bvreal":
		return ModeBVReal
	}
	panic("unknown mode " + n)
}

type Obligation struct {
	Name    string
	Func    string
	Kind    string // post, pre, inv-init, inv-pres, bounds, nil, div, alloc, decreases, lemma, frame, cover ...
	Label   string
	Props   []string
	Site    string
	Mode    string
	Assumes []Term
	Goal    Term
	NDecl   int // number of declarations visible
	Cover   bool // expect SAT
	vc      *VC
	// result
	Result  string // unsat / sat / unknown / timeout
	Solver  string
	Seconds float64
	Model   string
	Output  string
	Known   string // known-finding id if matched
	smtText string
	smtNoQ  string
	smtFull string
	noCOI   bool
	instMode bool
	smtInst string
	noLazy   bool   // leave out lazily included axioms
	smtNoLazy string // full assumption set without the lazy axioms (a weaker hypothesis set)
	replayExtra []string // extra assertions of a model query (replay)
	replayGet   []string // terms whose model values are requested
}

type State struct {
	mem       map[*Cell]Val
	pc        []Term
	links     []streamLink // buffered readers whose consumption has not been propagated to their source
	extWrites int    // stores to non-local cells (used to detect effect-free calls)
	isFact    []bool // parallel to pc: unconditional fact (true) vs path/branch condition (false)
	panicking bool
	recovered bool
	written   map[*Cell]bool
	delegCalls int // calls of the contract's `delegates` target seen on this path
}

func (s *State) Clone() *State {
	n := &State{mem: make(map[*Cell]Val, len(s.mem)), panicking: s.panicking, recovered: s.recovered, extWrites: s.extWrites, links: s.links, delegCalls: s.delegCalls}
	for k, v := range s.mem {
		n.mem[k] = v
	}
	n.pc = make([]Term, len(s.pc), len(s.pc)+8)
	copy(n.pc, s.pc)
	n.isFact = make([]bool, len(s.isFact), len(s.isFact)+8)
	copy(n.isFact, s.isFact)
	if s.written != nil {
		n.written = make(map[*Cell]bool, len(s.written))
		for k := range s.written {
			n.written[k] = true
		}
	}
	return n
}

// Assume adds a path condition (branch guard). Fact adds an unconditional fact (assumed
// contract postcondition, invariant after havoc, representation range): the distinction
// matters only when paths are merged by evalPure.
func (s *State) Assume(t Term) {
	if t.IsTrue() {
		return
	}
	for len(s.isFact) < len(s.pc) {
		s.isFact = append(s.isFact, false)
	}
	if os.Getenv("VCGO_TRACE") != "" && strings.Contains(t.E, "extractMetadata.err") && len(t.E) < 60 {
		fmt.Println("TRACE assume", t.E, string(debug.Stack()))
	}
	s.pc = append(s.pc, t)
	s.isFact = append(s.isFact, false)
}

func (s *State) Fact(t Term) {
	if t.IsTrue() {
		return
	}
	if os.Getenv("VCGO_TRACE") != "" && strings.Contains(t.E, "extractMetadata.err") && len(t.E) < 60 {
		fmt.Println("TRACE fact", t.E, string(debug.Stack()))
	}
	for len(s.isFact) < len(s.pc) {
		s.isFact = append(s.isFact, false)
	}
	s.pc = append(s.pc, t)
	s.isFact = append(s.isFact, true)
}

// decided reports whether c (or its negation) is literally among the path conditions.
func (s *State) decided(c Term) (bool, bool) {
	n := Not(c)
	for i := len(s.pc) - 1; i >= 0; i-- {
		if s.pc[i].E == c.E {
			return true, true
		}
		if s.pc[i].E == n.E {
			return true, false
		}
	}
	return false, false
}

func (s *State) Infeasible() bool {
	for _, t := range s.pc {
		if t.IsFalse() {
			return true
		}
	}
	return false
}

type VC struct {
	eng      *Engine
	mode     Mode
	decls    []string
	declared map[string]bool
	nfresh   int
	ncell    int
	obls     []*Obligation
	dry      int
	writeLog map[*Cell]bool
	cellType map[*Cell]types.Type
	globals  map[*ssa.Global]*Cell
	curFunc  string
	curProps []string
	notes    []string
	unsupported []string
	funcSyms map[string]bool
	strLits  map[string]Term
	axioms   []Term // global background axioms (e.g. rnd)
	usedAssumptions map[string]bool
	maxPaths int
	noDefine int
	modularWritten map[*Cell]bool
	keepRefsOnHavoc int
	writePaths map[*Cell]map[string][]PathElem
	pendingSlotContent Term
	curCase string
	defCache map[string]string
	entryCache map[*ssa.Package]*State
	entryErr map[*ssa.Package]error
	pureCache map[string][]Val
	entries  map[string]*replayEntry // per verified run: the symbolic inputs, for replay
	houdini  *houdiniHook
	ghostImgs map[string]*Cell // ghost pixel store of symbolic draw.Image values, by identity
	autoBusy bool
	autoLoops map[string]*LoopContract
	divCache map[string]Term
	divAsTerm bool
	declCache []declInfo
	declNames map[string]bool
	trivial []*Obligation
	initDone map[*ssa.Package]bool
	initRunning *ssa.Package
	npaths   int
	steps    int
}

func newVC(eng *Engine, mode Mode) *VC {
	vc := &VC{eng: eng, mode: mode, declared: map[string]bool{}, cellType: map[*Cell]types.Type{},
		globals: map[*ssa.Global]*Cell{}, funcSyms: map[string]bool{}, strLits: map[string]Term{},
		usedAssumptions: map[string]bool{}, maxPaths: 20000, initDone: map[*ssa.Package]bool{}, declNames: map[string]bool{}}
	vc.declareSort("Err")
	vc.declareSort("Str")
	vc.decl("(declare-const err_nil Err)")
	vc.decl("(declare-const io_EOF Err)")
	vc.decl("(assert (not (= io_EOF err_nil)))")
	if mode.Rnd {
		vc.decl("(declare-fun rnd32 (Real) Real)")
		vc.decl("(declare-fun rnd64 (Real) Real)")
		vc.decl("(assert (forall ((x Real) (y Real)) (! (=> (<= x y) (<= (rnd32 x) (rnd32 y))) :pattern ((rnd32 x) (rnd32 y)))))")
		vc.decl("(assert (forall ((x Real) (y Real)) (! (=> (<= x y) (<= (rnd64 x) (rnd64 y))) :pattern ((rnd64 x) (rnd64 y)))))")
		// relative error of round-to-nearest (normal range) plus the subnormal absolute error
		vc.decl("(assert (forall ((x Real)) (! (and (<= (rnd32 x) (+ x (* (/ 1.0 16777216.0) (ite (>= x 0.0) x (- x))) (/ 1.0 1000000000000000000000000000000000000000000000.0))) (>= (rnd32 x) (- x (* (/ 1.0 16777216.0) (ite (>= x 0.0) x (- x))) (/ 1.0 1000000000000000000000000000000000000000000000.0)))) :pattern ((rnd32 x)))))")
		// round-to-nearest-even is odd: rnd(-x) = -rnd(x)
		vc.decl("(assert (forall ((x Real)) (! (= (rnd64 (- x)) (- (rnd64 x))) :pattern ((rnd64 (- x))))))")
		vc.decl("(assert (forall ((x Real)) (! (= (rnd32 (- x)) (- (rnd32 x))) :pattern ((rnd32 (- x))))))")
		// rounding is idempotent
		vc.decl("(assert (forall ((x Real)) (! (= (rnd64 (rnd64 x)) (rnd64 x)) :pattern ((rnd64 (rnd64 x))))))")
		vc.decl("(assert (forall ((x Real)) (! (= (rnd32 (rnd32 x)) (rnd32 x)) :pattern ((rnd32 (rnd32 x))))))")
		vc.decl("(assert (= (rnd32 0.0) 0.0))")
		vc.decl("(assert (= (rnd64 0.0) 0.0))")
		vc.usedAssumptions["A-RND"] = true
	}
	return vc
}

func (vc *VC) assume(name string) { vc.usedAssumptions[name] = true }

func (vc *VC) decl(s string) { vc.decls = append(vc.decls, s) }

func (vc *VC) declareSort(name string) {
	k := "sort:" + name
	if vc.declared[k] {
		return
	}
	vc.declared[k] = true
	vc.decl(fmt.Sprintf("(declare-sort %s 0)", name))
}

func sanitize(s string) string {
	var sb strings.Builder
	for _, r := range s {
		switch {
		case r >= 'a' && r <= 'z', r >= 'A' && r <= 'Z', r >= '0' && r <= '9', r == '_', r == '.', r == '!', r == '$':
			sb.WriteRune(r)
		default:
			sb.WriteRune('_')
		}
	}
	return sb.String()
}

func (vc *VC) freshTerm(prefix string, s Sort) Term {
	vc.nfresh++
	name := fmt.Sprintf("%s!%d", sanitize(prefix), vc.nfresh)
	if s.K == KOpaque {
		vc.declareSort(s.Name)
	}
	vc.decl(fmt.Sprintf("(declare-const %s %s)", name, s.String()))
	return Term{S: s, E: name}
}

// define introduces a named abbreviation when an expression gets large.
func (vc *VC) define(prefix string, t Term) Term {
	if len(t.E) < 160 || t.IsConst() || vc.noDefine > 0 {
		return t
	}
	if vc.defCache == nil {
		vc.defCache = map[string]string{}
	}
	key := t.S.String() + "|" + t.E
	name, ok := vc.defCache[key]
	if !ok {
		vc.nfresh++
		name = fmt.Sprintf("%s!%d", sanitize(prefix), vc.nfresh)
		vc.decl(fmt.Sprintf("(define-fun %s () %s %s)", name, t.S.String(), t.E))
		vc.defCache[key] = name
	}
	r := t
	r.E = name
	r.Conj = nil
	return r
}

func (vc *VC) declareFun(name string, args []Sort, res Sort) {
	if vc.funcSyms[name] {
		return
	}
	vc.funcSyms[name] = true
	var as []string
	for _, a := range args {
		if a.K == KOpaque {
			vc.declareSort(a.Name)
		}
		as = append(as, a.String())
	}
	if res.K == KOpaque {
		vc.declareSort(res.Name)
	}
	vc.decl(fmt.Sprintf("(declare-fun %s (%s) %s)", name, strings.Join(as, " "), res.String()))
}

func (vc *VC) ufApp(name string, res Sort, args ...Term) Term {
	var as []Sort
	for _, a := range args {
		as = append(as, a.S)
	}
	name = sanitize(name)
	vc.declareFun(name, as, res)
	if len(args) == 0 {
		return Term{S: res, E: name}
	}
	return Term{S: res, E: app(name, args...)}
}

func (vc *VC) strLit(s string) Term {
	if t, ok := vc.strLits[s]; ok {
		return t
	}
	vc.nfresh++
	name := fmt.Sprintf("str!%d", vc.nfresh)
	vc.decl(fmt.Sprintf("(declare-const %s Str) ; %q", name, s))
	t := Term{S: SStr, E: name}
	for _, o := range vc.strLits {
		vc.decl(fmt.Sprintf("(assert (not (= %s %s)))", name, o.E))
	}
	vc.strLits[s] = t
	return t
}

func (vc *VC) newCell(name, kind string, T types.Type) *Cell {
	vc.ncell++
	c := &Cell{ID: vc.ncell, Name: fmt.Sprintf("%s#%d", name, vc.ncell), Kind: kind}
	vc.cellType[c] = T
	return c
}

// ---- types -----------------------------------------------------------------

func (vc *VC) intSort(bits int) Sort {
	if vc.mode.IntMath {
		return SInt
	}
	return BV(bits)
}

func (vc *VC) floatSort(bits int) Sort {
	if vc.mode.FloatReal {
		return SReal
	}
	if bits == 32 {
		return SF32
	}
	return SF64
}

func basicBits(b *types.Basic) (bits int, signed bool, isInt bool) {
	switch b.Kind() {
	case types.Int, types.Int64, types.UntypedInt:
		return 64, true, true
	case types.Int8:
		return 8, true, true
	case types.Int16:
		return 16, true, true
	case types.Int32, types.UntypedRune:
		return 32, true, true
	case types.Uint, types.Uint64, types.Uintptr:
		return 64, false, true
	case types.Uint8:
		return 8, false, true
	case types.Uint16:
		return 16, false, true
	case types.Uint32:
		return 32, false, true
	}
	return 0, false, false
}

// sortOf returns the SMT sort for scalar-encodable Go types.
func (vc *VC) sortOf(T types.Type) (Sort, bool) {
	switch t := T.Underlying().(type) {
	case *types.Basic:
		if bits, _, ok := basicBits(t); ok {
			return vc.intSort(bits), true
		}
		switch t.Kind() {
		case types.Bool, types.UntypedBool:
			return SBool, true
		case types.Float32:
			return vc.floatSort(32), true
		case types.Float64, types.UntypedFloat:
			return vc.floatSort(64), true
		case types.String, types.UntypedString:
			return SStr, true
		}
	case *types.Interface:
		if isErrorType(T) {
			return SErr, true
		}
	case *types.Array:
		if t.Len() > smallArrayMax {
			es, ok := vc.sortOf(t.Elem())
			if ok {
				return ArrSort(vc.intSort(64), es), true
			}
		}
	}
	return Sort{}, false
}

const smallArrayMax = 32

func isErrorType(T types.Type) bool {
	n, ok := T.(*types.Named)
	return ok && n.Obj().Pkg() == nil && n.Obj().Name() == "error"
}

func isOpaqueStruct(T types.Type) (string, bool) {
	n, ok := T.(*types.Named)
	if !ok {
		return "", false
	}
	if n.Obj().Pkg() == nil {
		return "", false
	}
	p := n.Obj().Pkg().Path()
	switch p + "." + n.Obj().Name() {
	case "time.Time", "time.Location":
		return sanitize("T_" + p + "." + n.Obj().Name()), true
	}
	return "", false
}

func (vc *VC) typeRange(t Term, T types.Type) Term {
	if !vc.mode.IntMath {
		return TTrue()
	}
	b, ok := T.Underlying().(*types.Basic)
	if !ok {
		return TTrue()
	}
	bits, signed, isInt := basicBits(b)
	if !isInt {
		return TTrue()
	}
	lo, hi := new(big.Int), new(big.Int)
	if signed {
		lo.Neg(new(big.Int).Lsh(big.NewInt(1), uint(bits-1)))
		hi.Sub(new(big.Int).Lsh(big.NewInt(1), uint(bits-1)), big.NewInt(1))
	} else {
		hi.Sub(new(big.Int).Lsh(big.NewInt(1), uint(bits)), big.NewInt(1))
	}
	return And(NumCmp("<=", IntConst(lo), t), NumCmp("<=", t, IntConst(hi)))
}

func isSigned(T types.Type) bool {
	if b, ok := T.Underlying().(*types.Basic); ok {
		_, s, _ := basicBits(b)
		return s
	}
	return false
}

func (vc *VC) intConst(v int64, T types.Type) Term {
	b := T.Underlying().(*types.Basic)
	bits, signed, _ := basicBits(b)
	if vc.mode.IntMath {
		return IntConst(big.NewInt(v))
	}
	return BVConstI(v, bits, signed)
}

func (vc *VC) idx(v int64) Term {
	if vc.mode.IntMath {
		return IntConst(big.NewInt(v))
	}
	return BVConstI(v, 64, true)
}

func (vc *VC) floatConstRat(r *big.Rat, bits int) Term {
	if vc.mode.FloatReal {
		// exact value of the constant rounded to the Go type
		var t Term
		if bits == 32 {
			f, _ := r.Float32()
			t = RealConst(new(big.Rat).SetFloat64(float64(f)))
		} else {
			f, _ := r.Float64()
			t = RealConst(new(big.Rat).SetFloat64(f))
		}
		if vc.mode.Rnd {
			// representable constants are fixed points of rounding
			k := fmt.Sprintf("rndfix%d:%s", bits, t.E)
			if !vc.declared[k] {
				vc.declared[k] = true
				vc.decl(fmt.Sprintf("(assert (= (rnd%d %s) %s))", bits, t.E, t.E))
			}
		}
		return t
	}
	if bits == 32 {
		f, _ := r.Float32()
		return FP32Const(f)
	}
	f, _ := r.Float64()
	return FP64Const(f)
}

func (vc *VC) constVal(c *ssa.Const) Val {
	T := c.Type()
	if c.Value == nil {
		return vc.zero(T)
	}
	return vc.constOf(c.Value, T)
}

func (vc *VC) constOf(cv constant.Value, T types.Type) Val {
	switch t := T.Underlying().(type) {
	case *types.Basic:
		if bits, signed, ok := basicBits(t); ok {
			iv, _ := new(big.Int).SetString(constant.ToInt(cv).ExactString(), 10)
			if iv == nil {
				panic("bad int const " + cv.ExactString())
			}
			if vc.mode.IntMath {
				return IntConst(iv)
			}
			return BVConst(iv, bits, signed)
		}
		switch t.Kind() {
		case types.Bool, types.UntypedBool:
			return TBool(constant.BoolVal(cv))
		case types.Float32, types.Float64, types.UntypedFloat:
			r := constRat(cv)
			bits := 64
			if t.Kind() == types.Float32 {
				bits = 32
			}
			return vc.floatConstRat(r, bits)
		case types.String, types.UntypedString:
			return vc.strLit(constant.StringVal(cv))
		}
	}
	panic(fmt.Sprintf("unsupported constant %v of type %v", cv, T))
}

func constRat(cv constant.Value) *big.Rat {
	f := constant.ToFloat(cv)
	if f.Kind() == constant.Unknown {
		panic("bad float const " + cv.ExactString())
	}
	num, _ := new(big.Int).SetString(constant.Num(f).ExactString(), 10)
	den, _ := new(big.Int).SetString(constant.Denom(f).ExactString(), 10)
	if num != nil && den != nil {
		return new(big.Rat).SetFrac(num, den)
	}
	fv, _ := constant.Float64Val(f)
	return new(big.Rat).SetFloat64(fv)
}

func (vc *VC) zero(T types.Type) Val {
	if isNamed(T, "strings", "Builder") {
		return BuilderObj{Len: vc.idx(0)}
	}
	if isNamed(T, "bytes", "Buffer") {
		is := vc.intSort(64)
		return BufferObj{Content: ConstArray(ArrSort(is, vc.byteSort()), vc.zeroByte()), Base: vc.idx(0), Len: vc.idx(0), Fresh: true}
	}
	if name, ok := isOpaqueStruct(T); ok {
		return vc.ufApp("zero_"+name, OpaqueSort(name))
	}
	switch t := T.Underlying().(type) {
	case *types.Basic:
		if _, _, ok := basicBits(t); ok {
			return vc.intConst(0, T)
		}
		switch t.Kind() {
		case types.Bool:
			return TFalse()
		case types.Float32:
			return vc.floatConstRat(new(big.Rat), 32)
		case types.Float64:
			return vc.floatConstRat(new(big.Rat), 64)
		case types.String:
			return vc.strLit("")
		case types.UnsafePointer:
			return PtrVal{}
		}
	case *types.Struct:
		sv := StructVal{F: make([]Val, t.NumFields())}
		for i := range sv.F {
			sv.F[i] = vc.zero(t.Field(i).Type())
		}
		return sv
	case *types.Array:
		if t.Len() <= smallArrayMax {
			av := ArrVal{E: make([]Val, t.Len())}
			for i := range av.E {
				av.E[i] = vc.zero(t.Elem())
			}
			return av
		}
		es, ok := vc.sortOf(t.Elem())
		if !ok {
			panic(fmt.Sprintf("large array of non-scalar %v", T))
		}
		return ConstArray(ArrSort(vc.intSort(64), es), vc.zero(t.Elem()).(Term))
	case *types.Pointer:
		return PtrVal{}
	case *types.Slice:
		return SliceVal{Off: vc.idx(0), Len: vc.idx(0), Cap: vc.idx(0), IsNil: TTrue()}
	case *types.Interface:
		if isErrorType(T) {
			return Term{S: SErr, E: "err_nil"}
		}
		return IfaceVal{}
	case *types.Signature:
		return FuncVal{Nil: true}
	case *types.Map:
		return MapVal{}
	}
	panic(fmt.Sprintf("zero: unsupported type %v", T))
}

// fresh creates an unconstrained symbolic value of type T. Assumptions (ranges,
// representation invariants) are added to st.
func (vc *VC) fresh(T types.Type, name string, st *State) Val {
	if oname, ok := isOpaqueStruct(T); ok {
		return vc.freshTerm(name, OpaqueSort(oname))
	}
	if s, ok := vc.sortOf(T); ok {
		t := vc.freshTerm(name, s)
		t.Signed = isSigned(T)
		st.Fact(vc.typeRange(t, T))
		return t
	}
	switch t := T.Underlying().(type) {
	case *types.Struct:
		sv := StructVal{F: make([]Val, t.NumFields())}
		for i := range sv.F {
			sv.F[i] = vc.fresh(t.Field(i).Type(), name+"."+t.Field(i).Name(), st)
		}
		return sv
	case *types.Array:
		av := ArrVal{E: make([]Val, t.Len())}
		for i := range av.E {
			av.E[i] = vc.fresh(t.Elem(), fmt.Sprintf("%s.%d", name, i), st)
		}
		return av
	case *types.Pointer:
		c := vc.newCell(name, "param", t.Elem())
		st.mem[c] = vc.freshPointee(t.Elem(), name, st)
		return PtrVal{Cell: c}
	case *types.Slice:
		es, ok := vc.sortOf(t.Elem())
		if !ok {
			panic(fmt.Sprintf("fresh: slice of non-scalar %v", T))
		}
		c := vc.newCell(name+".arr", "param", nil)
		st.mem[c] = vc.freshTerm(name+".arr", ArrSort(vc.intSort(64), es))
		ln := vc.freshTerm(name+".len", vc.intSort(64))
		ln.Signed = true
		cp := vc.freshTerm(name+".cap", vc.intSort(64))
		cp.Signed = true
		isnil := vc.freshTerm(name+".isnil", SBool)
		st.Fact(vc.iLe(vc.idx(0), ln, true))
		st.Fact(vc.iLe(ln, cp, true))
		st.Fact(vc.iLe(cp, vc.idxBig(maxLenBound), true))
		st.Fact(Implies(isnil, Eq(ln, vc.idx(0))))
		return SliceVal{Base: PtrVal{Cell: c}, Off: vc.idx(0), Len: ln, Cap: cp, IsNil: isnil}
	case *types.Signature:
		return FuncVal{Sym: "fn!" + sanitize(name), Sig: t}
	case *types.Interface:
		return vc.freshIface(T, name, st)
	case *types.Map:
		// an arbitrary non-nil map: unknown key set, values abstract or unknown
		mv := vc.makeMap(st, T, name).(MapVal)
		mo := st.mem[mv.Cell].(mapObj)
		mo.Present = vc.freshTerm(name+".present", mo.Present.S)
		for i := range mo.Vals {
			mo.Vals[i] = vc.freshTerm(name+".vals", mo.Vals[i].S)
		}
		mo.Count = vc.freshTerm(name+".count", mo.Count.S)
		st.Fact(vc.iLe(vc.idx(0), mo.Count, true))
		st.mem[mv.Cell] = mo
		return mv
	}
	panic(execError{fmt.Sprintf("fresh: unsupported type %v", T)})
}

var maxLenBound = new(big.Int).Lsh(big.NewInt(1), 56)

func (vc *VC) idxBig(v *big.Int) Term {
	if vc.mode.IntMath {
		return IntConst(v)
	}
	return BVConst(v, 64, true)
}

func (vc *VC) freshPointee(T types.Type, name string, st *State) Val {
	return vc.fresh(T, name, st)
}

// ---- integer helper ops dispatching on mode ----------------------------------

func (vc *VC) iAdd(a, b Term) Term {
	if a.S.K == KInt {
		return NumAdd(a, b)
	}
	return BVAdd(a, b)
}
func (vc *VC) iSub(a, b Term) Term {
	if a.S.K == KInt {
		return NumSub(a, b)
	}
	return BVSub(a, b)
}
func (vc *VC) iMul(a, b Term) Term {
	if a.S.K == KInt {
		return NumMul(a, b)
	}
	return BVMul(a, b)
}
func (vc *VC) iLt(a, b Term, signed bool) Term {
	if a.S.K == KInt {
		return NumCmp("<", a, b)
	}
	return BVLt(a, b, signed)
}
func (vc *VC) iLe(a, b Term, signed bool) Term {
	if a.S.K == KInt {
		return NumCmp("<=", a, b)
	}
	return BVLe(a, b, signed)
}

// toIndex converts an integer value of Go type T to the index sort (int).
func (vc *VC) toIndex(t Term, T types.Type) Term {
	if t.S.K == KInt {
		return t
	}
	r := BVResize(t, 64, isSigned(T), true)
	return r
}

// ---- memory ------------------------------------------------------------------

func (vc *VC) getPath(v Val, path []PathElem) Val {
	for _, pe := range path {
		switch x := v.(type) {
		case StructVal:
			v = x.F[pe.Field]
		case ArrVal:
			v = vc.arrGet(x, *pe.Idx)
		case Term:
			if x.S.K != KArr {
				panic("getPath: index into non-array term " + x.E)
			}
			v = Select(x, *pe.Idx)
		case SliceArr:
			// [idx] then marker -2: the content array of that slot
			if pe.Idx != nil {
				v = slotRef{sa: x, idx: *pe.Idx}
			} else {
				panic("getPath: bad path into slice-of-slices")
			}
		case slotRef:
			if pe.Field == -2 {
				v = Select(x.sa.Data, x.idx)
			} else {
				panic("getPath: bad path into slice-of-slices slot")
			}
		default:
			panic(fmt.Sprintf("getPath: cannot descend into %T", v))
		}
	}
	return v
}

func (vc *VC) arrGet(a ArrVal, i Term) Val {
	if i.C != nil {
		k := int(i.C.Int64())
		if k < 0 || k >= len(a.E) {
			// out of range (guarded by a bounds obligation); return arbitrary element
			return a.E[0]
		}
		return a.E[k]
	}
	if len(a.E) == 0 {
		panic("index into empty array")
	}
	r := a.E[len(a.E)-1]
	for k := len(a.E) - 2; k >= 0; k-- {
		r = vc.iteVal(Eq(i, vc.likeIdx(i, int64(k))), a.E[k], r)
	}
	return r
}

func (vc *VC) likeIdx(i Term, k int64) Term {
	if i.S.K == KInt {
		return IntConst(big.NewInt(k))
	}
	return BVConstI(k, i.S.N, i.Signed)
}

func (vc *VC) setPath(v Val, path []PathElem, nv Val) Val {
	if len(path) == 0 {
		return nv
	}
	pe := path[0]
	switch x := v.(type) {
	case StructVal:
		nf := make([]Val, len(x.F))
		copy(nf, x.F)
		nf[pe.Field] = vc.setPath(x.F[pe.Field], path[1:], nv)
		return StructVal{F: nf}
	case ArrVal:
		ne := make([]Val, len(x.E))
		copy(ne, x.E)
		i := *pe.Idx
		if i.C != nil {
			k := int(i.C.Int64())
			if k >= 0 && k < len(ne) {
				ne[k] = vc.setPath(x.E[k], path[1:], nv)
			}
			return ArrVal{E: ne}
		}
		for k := range ne {
			upd := vc.setPath(x.E[k], path[1:], nv)
			ne[k] = vc.iteVal(Eq(i, vc.likeIdx(i, int64(k))), upd, x.E[k])
		}
		return ArrVal{E: ne}
	case Term:
		if x.S.K != KArr {
			panic("setPath: index into non-array term")
		}
		if len(path) != 1 {
			panic("setPath: nested path under array term")
		}
		return Store(x, *pe.Idx, nv.(Term))
	case SliceArr:
		if pe.Idx == nil {
			panic("setPath: bad path into slice-of-slices")
		}
		i := *pe.Idx
		if len(path) == 1 {
			sv, ok := nv.(SliceVal)
			if !ok {
				panic(execError{"store of a non-slice into a slice-of-slices"})
			}
			n := x
			n.IsNil = Store(x.IsNil, i, sv.IsNil)
			n.Len = Store(x.Len, i, sv.Len)
			n.Data = Store(x.Data, i, vc.pendingSlotContent)
			return n
		}
		if len(path) == 3 && path[1].Field == -2 && path[2].Idx != nil {
			// write one byte of a slot
			n := x
			n.Data = Store(x.Data, i, Store(Select(x.Data, i), *path[2].Idx, nv.(Term)))
			return n
		}
		panic("setPath: unsupported path into slice-of-slices")
	}
	panic(fmt.Sprintf("setPath: cannot descend into %T", v))
}

func (vc *VC) load(st *State, p PtrVal) Val {
	if p.Cell == nil {
		panic(execError{"load through nil pointer"})
	}
	v, ok := st.mem[p.Cell]
	if !ok {
		panic(execError{"load from unknown cell " + p.Cell.Name})
	}
	// element of a slice-of-slices backing store: build the element's slice header
	for k := 0; k <= len(p.Path); k++ {
		pv := vc.getPathSafe(v, p.Path[:k])
		if sa, ok := pv.(SliceArr); ok && k < len(p.Path) && p.Path[k].Idx != nil && k == len(p.Path)-1 {
			i := *p.Path[k].Idx
			base := PtrVal{Cell: p.Cell, Path: append(append([]PathElem(nil), p.Path...), PathElem{Field: -2})}
			ln := Select(sa.Len, i)
			ln.Signed = true
			return SliceVal{Base: base, Off: vc.idx(0), Len: ln, Cap: ln, IsNil: Select(sa.IsNil, i)}
		}
		if !ok {
			break
		}
	}
	return vc.getPath(v, p.Path)
}

// getPathSafe is getPath that stops (returning nil) where the path cannot be followed.
func (vc *VC) getPathSafe(v Val, path []PathElem) (r Val) {
	defer func() {
		if recover() != nil {
			r = nil
		}
	}()
	return vc.getPath(v, path)
}

func (vc *VC) store(st *State, p PtrVal, nv Val) {
	if p.Cell == nil {
		panic(execError{"store through nil pointer"})
	}
	old, ok := st.mem[p.Cell]
	if !ok && len(p.Path) > 0 {
		panic(execError{"store to unknown cell " + p.Cell.Name})
	}
	if sv, isSlice := nv.(SliceVal); isSlice && len(p.Path) > 0 {
		if _, isSA := vc.getPathSafe(old, p.Path[:len(p.Path)-1]).(SliceArr); isSA {
			vc.pendingSlotContent = vc.sliceContentArray(st, sv)
		}
	}
	st.mem[p.Cell] = vc.setPath(old, p.Path, nv)
	if p.Cell.Kind != "local" {
		st.extWrites++
	}
	if vc.writeLog != nil {
		vc.writeLog[p.Cell] = true
		vc.logWritePath(p)
	}
	if st.written != nil {
		st.written[p.Cell] = true
	}
}

// logWritePath records which struct-field path of a cell was written (up to the first
// element index), so that loop havoc can leave untouched fields (e.g. a reader interface
// stored next to a flag) alone.
func (vc *VC) logWritePath(p PtrVal) {
	if vc.writePaths == nil {
		vc.writePaths = map[*Cell]map[string][]PathElem{}
	}
	var fields []PathElem
	key := ""
	for _, pe := range p.Path {
		if pe.Idx != nil || pe.Field < 0 {
			break
		}
		fields = append(fields, pe)
		key += fmt.Sprintf(".%d", pe.Field)
	}
	m := vc.writePaths[p.Cell]
	if m == nil {
		m = map[string][]PathElem{}
		vc.writePaths[p.Cell] = m
	}
	m[key] = fields
}

type execError struct{ msg string }

func (e execError) Error() string { return e.msg }

// iteVal merges two values of the same shape.
func (vc *VC) iteVal(c Term, a, b Val) Val {
	if c.IsTrue() {
		return a
	}
	if c.IsFalse() {
		return b
	}
	switch x := a.(type) {
	case Term:
		y := b.(Term)
		if !x.S.Eq(y.S) {
			panic(fmt.Sprintf("iteVal sort mismatch %s vs %s", x.S, y.S))
		}
		return Ite(c, x, y)
	case StructVal:
		y := b.(StructVal)
		r := StructVal{F: make([]Val, len(x.F))}
		for i := range x.F {
			r.F[i] = vc.iteVal(c, x.F[i], y.F[i])
		}
		return r
	case ArrVal:
		y := b.(ArrVal)
		r := ArrVal{E: make([]Val, len(x.E))}
		for i := range x.E {
			r.E[i] = vc.iteVal(c, x.E[i], y.E[i])
		}
		return r
	case SliceVal:
		y := b.(SliceVal)
		base := x.Base
		if x.Base.Cell == nil {
			base = y.Base
		} else if y.Base.Cell != nil && (y.Base.Cell != x.Base.Cell || len(y.Base.Path) != len(x.Base.Path)) {
			panic(execError{"iteVal: slices with different backing arrays"})
		}
		return SliceVal{Base: base, Off: Ite(c, x.Off, y.Off), Len: Ite(c, x.Len, y.Len), Cap: Ite(c, x.Cap, y.Cap), IsNil: Ite(c, x.IsNil, y.IsNil)}
	case PtrVal:
		y := b.(PtrVal)
		if x.Cell == y.Cell && len(x.Path) == len(y.Path) {
			return x
		}
		panic(execError{"iteVal: distinct pointers"})
	case TupleVal:
		y := b.(TupleVal)
		r := make(TupleVal, len(x))
		for i := range x {
			r[i] = vc.iteVal(c, x[i], y[i])
		}
		return r
	case IfaceVal:
		y := b.(IfaceVal)
		if x.Dyn == nil && y.Dyn == nil {
			return x
		}
		if x.Dyn != nil && y.Dyn != nil && types.Identical(x.Dyn, y.Dyn) {
			return IfaceVal{Dyn: x.Dyn, V: vc.iteVal(c, x.V, y.V)}
		}
		panic(execError{"iteVal: distinct interface dynamic types"})
	case FuncVal:
		return x
	case MapVal:
		y := b.(MapVal)
		if x.Cell == y.Cell {
			return x
		}
		panic(execError{"iteVal: distinct maps"})
	}
	panic(execError{fmt.Sprintf("iteVal: unsupported %T", a)})
}

// eqVal builds structural equality of two values.
func (vc *VC) eqVal(a, b Val) Term {
	switch x := a.(type) {
	case Term:
		y, ok := b.(Term)
		if !ok {
			panic(execError{fmt.Sprintf("eqVal: %T vs %T", a, b)})
		}
		if x.S.K == KFP {
			return FPCmp("fp.eq", x, y)
		}
		return Eq(x, y)
	case StructVal:
		y := b.(StructVal)
		var cs []Term
		for i := range x.F {
			cs = append(cs, vc.eqVal(x.F[i], y.F[i]))
		}
		return And(cs...)
	case ArrVal:
		y := b.(ArrVal)
		var cs []Term
		for i := range x.E {
			cs = append(cs, vc.eqVal(x.E[i], y.E[i]))
		}
		return And(cs...)
	case PtrVal:
		y, ok := b.(PtrVal)
		if !ok {
			panic(execError{"eqVal ptr vs non-ptr"})
		}
		if x.Cell == nil || y.Cell == nil {
			return TBool(x.Cell == y.Cell)
		}
		if x.Cell != y.Cell || len(x.Path) != len(y.Path) {
			return TFalse()
		}
		return TTrue()
	case SliceVal:
		// only comparison with nil is legal in Go
		return x.IsNil
	case IfaceVal:
		y, ok := b.(IfaceVal)
		if ok {
			if x.Dyn == nil || y.Dyn == nil {
				return TBool(x.Dyn == nil && y.Dyn == nil)
			}
			if !types.Identical(x.Dyn, y.Dyn) {
				return TFalse()
			}
			return vc.eqVal(x.V, y.V)
		}
	case MapVal:
		return TBool(x.Cell == nil)
	case FuncVal:
		return TBool(x.Nil)
	}
	panic(execError{fmt.Sprintf("eqVal: unsupported %T", a)})
}

// ---- obligations -----------------------------------------------------------------

func (vc *VC) addObligation(st *State, kind, label, site string, goal Term, props []string) {
	if vc.dry > 0 {
		return
	}
	if st.Infeasible() {
		return
	}
	if goal.IsTrue() {
		if kind == "post" || kind == "lemma" || kind == "inv-init" || kind == "inv-pres" || kind == "step" || kind == "pre" {
			vc.trivial = append(vc.trivial, &Obligation{Func: vc.curFunc, Kind: kind, Label: label, Mode: vc.mode.Name, Props: props,
				Name: fmt.Sprintf("%s#%s:%s", vc.curFunc, kind, label), Result: "unsat", Solver: "vcgo-simplifier", vc: vc, Goal: goal})
		}
		return
	}
	if len(goal.Conj) > 1 && len(goal.Conj) <= 64 && (kind == "post" || kind == "lemma" || kind == "inv-init" || kind == "inv-pres") {
		for i, c := range goal.Conj {
			vc.addObligation(st, kind, fmt.Sprintf("%s.%d", label, i+1), site, c, props)
		}
		return
	}
	o := &Obligation{
		Func: vc.curFunc, Kind: kind, Label: label, Site: site, Mode: vc.mode.Name,
		Goal: goal, NDecl: len(vc.decls), vc: vc, Props: props,
	}
	o.Assumes = make([]Term, len(st.pc))
	copy(o.Assumes, st.pc)
	o.Name = fmt.Sprintf("%s#%s:%s", vc.curFunc, kind, label)
	if site != "" {
		o.Name += "@" + site
	}
	vc.obls = append(vc.obls, o)
}

var symRe = regexp.MustCompile(`[A-Za-z_][A-Za-z0-9_.!$]*`)

type declInfo struct {
	text    string
	defines string // symbol introduced ("" for assert lines)
	uses    []string
	anchor  string
	lazy    bool // axiom left out of the first, cheap attempts (see pixOffset)
}

func (vc *VC) declInfos(n int) []declInfo {
	for len(vc.declCache) < n {
		i := len(vc.declCache)
		d := vc.decls[i]
		di := declInfo{text: d}
		fields := strings.Fields(d)
		body := d
		if len(fields) >= 2 && (fields[0] == "(declare-const" || fields[0] == "(declare-fun" || fields[0] == "(define-fun" || fields[0] == "(declare-sort") {
			di.defines = strings.TrimRight(fields[1], ")")
			vc.declNames[di.defines] = true
			body = d[strings.Index(d, fields[1])+len(fields[1]):]
		}
		if k := strings.Index(body, " ; "); k >= 0 && strings.HasPrefix(d, "(declare-const") {
			body = body[:k]
		}
		if k := strings.Index(body, " ;lazyanchor="); k >= 0 {
			di.anchor = strings.TrimSpace(body[k+13:])
			di.lazy = true
			body = body[:k]
			di.text = d[:strings.Index(d, " ;lazyanchor=")]
		} else if k := strings.Index(body, " ;anchor="); k >= 0 {
			di.anchor = strings.TrimSpace(body[k+9:])
			body = body[:k]
			di.text = d[:strings.Index(d, " ;anchor=")]
		}
		for _, tok := range symRe.FindAllString(body, -1) {
			if vc.declNames[tok] && tok != di.defines {
				di.uses = append(di.uses, tok)
			}
		}
		vc.declCache = append(vc.declCache, di)
	}
	return vc.declCache[:n]
}

// coneOfInfluence keeps the assumptions that share symbols (transitively, also through
// definitions and anchored axioms) with the goal. Dropping assumptions only weakens the
// hypothesis, so a proof of the pruned query is a proof of the full one.
func (vc *VC) coneOfInfluence(o *Obligation, infos []declInfo) []Term {
	defUses := map[string][]string{}
	anchored := map[string][]string{}
	for _, di := range infos {
		if di.defines != "" && len(di.uses) > 0 {
			defUses[di.defines] = di.uses
		}
		if di.anchor != "" {
			anchored[di.anchor] = append(anchored[di.anchor], di.uses...)
		}
	}
	syms := map[string]bool{}
	var add func(s string)
	add = func(s string) {
		if syms[s] {
			return
		}
		syms[s] = true
		for _, u := range defUses[s] {
			add(u)
		}
		for _, u := range anchored[s] {
			add(u)
		}
	}
	toks := func(e string) []string {
		var r []string
		for _, tok := range symRe.FindAllString(e, -1) {
			if vc.declNames[tok] {
				r = append(r, tok)
			}
		}
		return r
	}
	for _, t := range toks(o.Goal.E) {
		add(t)
	}
	asyms := make([][]string, len(o.Assumes))
	for i, a := range o.Assumes {
		// close over definitions so abbreviated assumptions keep their real symbols
		seen := map[string]bool{}
		var stack []string
		stack = append(stack, toks(a.E)...)
		for len(stack) > 0 {
			x := stack[len(stack)-1]
			stack = stack[:len(stack)-1]
			if seen[x] {
				continue
			}
			seen[x] = true
			asyms[i] = append(asyms[i], x)
			stack = append(stack, defUses[x]...)
		}
	}
	inc := make([]bool, len(o.Assumes))
	for changed := true; changed; {
		changed = false
		for i := range o.Assumes {
			if inc[i] {
				continue
			}
			hit := len(asyms[i]) == 0
			for _, s := range asyms[i] {
				if syms[s] {
					hit = true
					break
				}
			}
			if hit {
				inc[i] = true
				changed = true
				for _, s := range asyms[i] {
					add(s)
				}
			}
		}
	}
	var res []Term
	for i, a := range o.Assumes {
		if inc[i] {
			res = append(res, a)
		}
	}
	return res
}

// SMT renders the query with only the declarations it (transitively) needs, so that
// pure arithmetic goals reach the solvers' specialised tactics.
func (o *Obligation) SMT(produceModels bool) string {
	return o.smtVariant(produceModels, false)
}

// SMTInst: full assumption set with triggered quantifiers instantiated by the generator.
func (o *Obligation) SMTInst() string {
	o.noCOI = true
	o.instMode = true
	defer func() { o.noCOI = false; o.instMode = false }()
	return o.smtVariant(false, false)
}

// SMTFull keeps every assumption (no cone-of-influence pruning): needed when the path
// itself is infeasible for reasons unrelated to the goal's symbols.
func (o *Obligation) SMTFull(produceModels bool) string {
	o.noCOI = true
	defer func() { o.noCOI = false }()
	return o.smtVariant(produceModels, false)
}

// smtVariant with dropQuantified omits universally quantified assumptions (a weaker
// hypothesis set, so unsat still discharges the obligation).
func (o *Obligation) smtVariant(produceModels bool, dropQuantified bool) string {
	vc := o.vc
	infos := vc.declInfos(o.NDecl)
	used := map[string]bool{}
	mark := func(text string) {
		for _, tok := range symRe.FindAllString(text, -1) {
			if vc.declNames[tok] {
				used[tok] = true
			}
		}
	}
	assumes := o.Assumes
	if !o.Cover && !o.noCOI {
		assumes = vc.coneOfInfluence(o, infos)
	}
	for _, a := range assumes {
		mark(a.E)
	}
	mark(o.Goal.E)
	for _, x := range o.replayExtra {
		mark(x)
	}
	for _, x := range o.replayGet {
		mark(x)
	}
	include := make([]bool, len(infos))
	for changed := true; changed; {
		changed = false
		for i := len(infos) - 1; i >= 0; i-- {
			if include[i] {
				continue
			}
			di := infos[i]
			if di.defines != "" {
				if used[di.defines] {
					include[i] = true
					changed = true
					for _, u := range di.uses {
						used[u] = true
					}
				}
				continue
			}
			if di.anchor != "" {
				if di.lazy && o.noLazy {
					continue
				}
				if used[di.anchor] {
					include[i] = true
					changed = true
					for _, u := range di.uses {
						used[u] = true
					}
				}
				continue
			}
			// axiom: include when all the symbols it talks about are in use
			all := len(di.uses) > 0
			for _, u := range di.uses {
				if !used[u] {
					all = false
				}
			}
			if all {
				include[i] = true
				changed = true
			}
		}
	}
	var body strings.Builder
	for i, di := range infos {
		if include[i] {
			body.WriteString(di.text)
			body.WriteString("\n")
		}
	}
	if o.instMode {
		var as []string
		for _, a := range assumes {
			as = append(as, a.E)
		}
		// definitions are part of the text searched for trigger matches
		for _, a := range instantiate(as, o.Goal.E, body.String()) {
			body.WriteString("(assert ")
			body.WriteString(a)
			body.WriteString(")\n")
		}
	} else {
		for _, a := range assumes {
			if dropQuantified && strings.Contains(a.E, "(forall ") {
				continue
			}
			body.WriteString("(assert ")
			body.WriteString(a.E)
			body.WriteString(")\n")
		}
	}
	if o.Cover {
		body.WriteString("(assert " + o.Goal.E + ")\n")
	} else {
		body.WriteString("(assert (not " + o.Goal.E + "))\n")
	}
	for _, x := range o.replayExtra {
		body.WriteString("(assert " + x + ")\n")
	}
	bs := body.String()
	logic := "ALL"
	if !strings.Contains(bs, "forall") && !strings.Contains(bs, "exists") && !strings.Contains(bs, "declare-sort") &&
		!strings.Contains(bs, "declare-fun") && !strings.Contains(bs, "BitVec") && !strings.Contains(bs, "FloatingPoint") && !strings.Contains(bs, "(fp ") && !strings.Contains(bs, "#x") && !strings.Contains(bs, "#b") &&
		!strings.Contains(bs, "Array") && !strings.Contains(bs, " Int") && !strings.Contains(bs, "to_int") {
		logic = "QF_NRA"
	}
	var sb strings.Builder
	if produceModels {
		sb.WriteString("(set-option :produce-models true)\n")
	}
	sb.WriteString("(set-logic " + logic + ")\n")
	sb.WriteString(bs)
	sb.WriteString("(check-sat)\n")
	if len(o.replayGet) > 0 {
		sb.WriteString("(get-value (" + strings.Join(o.replayGet, " ") + "))\n")
	} else if produceModels {
		sb.WriteString("(get-model)\n")
	}
	return sb.String()
}

func (vc *VC) posOf(p token.Pos) string {
	if !p.IsValid() {
		return ""
	}
	pos := vc.eng.fset.Position(p)
	f := pos.Filename
	f = strings.TrimPrefix(f, vc.eng.repoDir+"/")
	return fmt.Sprintf("%s:%d", f, pos.Line)
}

func sortedKeys(m map[string]bool) []string {
	var ks []string
	for k := range m {
		ks = append(ks, k)
	}
	sort.Strings(ks)
	return ks
}


type slotRef struct {
	sa  SliceArr
	idx Term
}

// sliceContentArray returns an array A with A[k] = content of slice element k (k < len).
func (vc *VC) sliceContentArray(st *State, sv SliceVal) Term {
	is := vc.intSort(64)
	if sv.Base.Cell == nil {
		return ConstArray(ArrSort(is, vc.byteSort()), vc.zeroByte())
	}
	src, ok := vc.load(st, sv.Base).(Term)
	if !ok || src.S.K != KArr {
		panic(execError{"slice-of-slices element over a non-array backing store"})
	}
	if sv.Off.C != nil && sv.Off.C.Sign() == 0 {
		return src
	}
	a := vc.freshTerm("slotcontent", src.S)
	vc.nfresh++
	q := Term{S: is, E: fmt.Sprintf("k!q%d", vc.nfresh), Signed: true}
	body := Eq(Select(a, q), Select(src, vc.iAdd(sv.Off, q)))
	st.Fact(Term{S: SBool, E: fmt.Sprintf("(forall ((%s %s)) (! %s :pattern ((select %s %s))))", q.E, is.String(), body.E, a.E, q.E)})
	return a
}
