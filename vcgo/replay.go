package main

// Replay of solver counterexamples against the real code.
//
// When an obligation of a function (or a lemma) is answered `sat`, the model's values of the
// function's entry symbols (parameters, pointees, ghost variables, stream contents) are read
// back with (get-value), turned into Go literals, and an in-package test is generated that
//   - builds those inputs,
//   - calls the real function from /repo's working tree,
//   - evaluates the contract's ensures clauses (translated from the spec language to Go)
//     on the values the real code returned.
// The test is injected with `go test -overlay` (nothing is written to the repo). The violation
// is reported as confirmed only when the real code panics (for a safety obligation) or a
// translated clause evaluates to false on the real outputs.

import (
	"bytes"
	"context"
	"encoding/json"
	"fmt"
	"go/ast"
	"go/parser"
	"go/printer"
	"go/token"
	"go/types"
	"math"
	"math/big"
	"os"
	"regexp"
	"os/exec"
	"path/filepath"
	"sort"
	"strconv"
	"strings"
	"time"

	"golang.org/x/tools/go/ast/astutil"
	"golang.org/x/tools/go/ssa"
)

type replayParam struct {
	Name string
	T    types.Type
	V    Val
	Spec string // mathint / mathreal for lemma binders
}

type replayEntry struct {
	fn       *ssa.Function
	fc       *FuncContract
	lemma    *Lemma
	caseName string
	params   []replayParam
	ghosts   []replayParam
	st       *State
	pkg      *ssa.Package
	mode     string
}

type replayResult struct {
	confirmed bool
	text      string
	source    string
	pkgDir    string
	inputs    map[string]string
	kind      string
	note      string
	failedClause map[string]bool
}

// replayDeadline bounds the time a check spends looking for replayable inputs.
var replayDeadline = time.Now().Add(24 * time.Hour)

var replayCap int64 = 4096 // largest stream / slice length a replay will materialise (smaller caps are tried first)

// ---- s-expressions --------------------------------------------------------------------------

type sexp struct {
	atom string
	list []*sexp
	isL  bool
}

func parseSexps(s string) []*sexp {
	var out []*sexp
	pos := 0
	var parse func() *sexp
	skip := func() {
		for pos < len(s) {
			c := s[pos]
			if c == ' ' || c == '\n' || c == '\t' || c == '\r' {
				pos++
			} else if c == ';' {
				for pos < len(s) && s[pos] != '\n' {
					pos++
				}
			} else {
				break
			}
		}
	}
	parse = func() *sexp {
		skip()
		if pos >= len(s) {
			return nil
		}
		if s[pos] == '(' {
			pos++
			n := &sexp{isL: true}
			for {
				skip()
				if pos >= len(s) {
					return n
				}
				if s[pos] == ')' {
					pos++
					return n
				}
				c := parse()
				if c == nil {
					return n
				}
				n.list = append(n.list, c)
			}
		}
		if s[pos] == ')' {
			pos++
			return nil
		}
		st := pos
		if s[pos] == '"' {
			pos++
			for pos < len(s) && s[pos] != '"' {
				pos++
			}
			pos++
			return &sexp{atom: s[st:pos]}
		}
		if s[pos] == '|' {
			pos++
			for pos < len(s) && s[pos] != '|' {
				pos++
			}
			pos++
			return &sexp{atom: s[st:pos]}
		}
		for pos < len(s) && !strings.ContainsRune(" \n\t\r()", rune(s[pos])) {
			pos++
		}
		return &sexp{atom: s[st:pos]}
	}
	for {
		skip()
		if pos >= len(s) {
			break
		}
		e := parse()
		if e != nil {
			out = append(out, e)
		}
	}
	return out
}

func (e *sexp) String() string {
	if !e.isL {
		return e.atom
	}
	var ss []string
	for _, c := range e.list {
		ss = append(ss, c.String())
	}
	return "(" + strings.Join(ss, " ") + ")"
}

// ---- model values ---------------------------------------------------------------------------

type modelVal struct {
	raw  string
	sexp *sexp
}

func (m modelVal) bv() (*big.Int, int, bool) {
	a := m.sexp
	if a.isL {
		// (_ bv123 64)
		if len(a.list) == 3 && a.list[0].atom == "_" && strings.HasPrefix(a.list[1].atom, "bv") {
			v, ok := new(big.Int).SetString(a.list[1].atom[2:], 10)
			w, _ := strconv.Atoi(a.list[2].atom)
			return v, w, ok
		}
		return nil, 0, false
	}
	if strings.HasPrefix(a.atom, "#x") {
		v, ok := new(big.Int).SetString(a.atom[2:], 16)
		return v, 4 * (len(a.atom) - 2), ok
	}
	if strings.HasPrefix(a.atom, "#b") {
		v, ok := new(big.Int).SetString(a.atom[2:], 2)
		return v, len(a.atom) - 2, ok
	}
	return nil, 0, false
}

func ratOf(a *sexp) (*big.Rat, bool) {
	if !a.isL {
		r, ok := new(big.Rat).SetString(strings.TrimSuffix(a.atom, "?"))
		return r, ok
	}
	if len(a.list) == 2 && a.list[0].atom == "-" {
		r, ok := ratOf(a.list[1])
		if !ok {
			return nil, false
		}
		return r.Neg(r), true
	}
	if len(a.list) == 3 && a.list[0].atom == "/" {
		x, ok1 := ratOf(a.list[1])
		y, ok2 := ratOf(a.list[2])
		if !ok1 || !ok2 || y.Sign() == 0 {
			return nil, false
		}
		return x.Quo(x, y), true
	}
	return nil, false
}

// fpBits returns the IEEE bit pattern of an FP model value.
func (m modelVal) fpBits() (uint64, int, bool) {
	a := m.sexp
	if !a.isL {
		return 0, 0, false
	}
	if len(a.list) == 4 && a.list[0].atom == "fp" {
		var bits uint64
		tot := 0
		for _, p := range a.list[1:] {
			v, w, ok := modelVal{sexp: p}.bv()
			if !ok {
				return 0, 0, false
			}
			bits = bits<<uint(w) | v.Uint64()
			tot += w
		}
		return bits, tot, true
	}
	if len(a.list) == 4 && a.list[0].atom == "_" {
		eb, _ := strconv.Atoi(a.list[2].atom)
		sb, _ := strconv.Atoi(a.list[3].atom)
		tot := eb + sb
		expAll := (uint64(1)<<uint(eb) - 1) << uint(sb-1)
		switch a.list[1].atom {
		case "+zero":
			return 0, tot, true
		case "-zero":
			return uint64(1) << uint(tot-1), tot, true
		case "+oo":
			return expAll, tot, true
		case "-oo":
			return expAll | uint64(1)<<uint(tot-1), tot, true
		case "NaN":
			return expAll | uint64(1)<<uint(sb-2), tot, true
		}
	}
	return 0, 0, false
}

// ---- model session --------------------------------------------------------------------------

type modelSession struct {
	o     *Obligation
	pins  []string
	vals  map[string]modelVal
	extra []string
	fails int
	log   []string
	variant string // which assumption set produced the model: full / pruned
}

func (ms *modelSession) query(terms []Term) bool {
	if len(terms) == 0 {
		return true
	}
	o := ms.o
	var gets []string
	seen := map[string]bool{}
	for _, t := range terms {
		if _, ok := ms.vals[t.E]; ok || seen[t.E] {
			continue
		}
		seen[t.E] = true
		gets = append(gets, t.E)
	}
	if len(gets) == 0 {
		return true
	}
	dir, err := os.MkdirTemp("", "vcgo-replay")
	if err != nil {
		return false
	}
	defer os.RemoveAll(dir)
	file := filepath.Join(dir, "q.smt2")
	var res solveResult
	// The full assumption set is preferred; when the solver cannot produce a model for it, the
	// cone-of-influence query's model is used as a candidate input (the replay decides).
	variants := []string{"full", "pruned"}
	if ms.variant != "" {
		variants = []string{ms.variant}
	}
	for _, v := range variants {
		o.replayExtra = append(append([]string(nil), ms.extra...), ms.pins...)
		o.replayGet = gets
		var smt string
		if v == "full" {
			smt = o.SMTFull(true)
		} else {
			smt = o.SMT(true)
		}
		o.replayExtra, o.replayGet = nil, nil
		os.WriteFile(file, []byte(smt), 0o644)
		for _, s := range []solverSpec{solvers[0], solvers[1]} {
			left := int(time.Until(replayDeadline).Seconds())
			if left < 2 {
				res = solveResult{Result: "replay time budget exhausted"}
				break
			}
			if left > 12 {
				left = 12
			}
			res = runSolver(context.Background(), s, file, left)
			if res.Result == "sat" {
				break
			}
		}
		if res.Result == "sat" {
			ms.variant = v
			break
		}
		ms.log = append(ms.log, "model query ("+v+" assumptions): "+res.Result)
	}
	if res.Result != "sat" {
		return false
	}
	out := res.Output
	if i := strings.Index(out, "\n"); i >= 0 {
		out = out[i+1:]
	}
	es := parseSexps(out)
	if len(es) == 0 || !es[0].isL {
		ms.log = append(ms.log, "model query: no values")
		return false
	}
	pairs := es[0].list
	if len(pairs) != len(gets) {
		ms.log = append(ms.log, fmt.Sprintf("model query: %d values for %d terms", len(pairs), len(gets)))
		return false
	}
	for i, p := range pairs {
		if !p.isL || len(p.list) != 2 {
			return false
		}
		v := p.list[1]
		ms.vals[gets[i]] = modelVal{raw: v.String(), sexp: v}
		// pin scalar values so that later queries extend the same model
		if !strings.Contains(v.String(), "lambda") && !strings.Contains(v.String(), "as const") && !strings.Contains(v.String(), "store") && !strings.Contains(v.String(), "root-obj") {
			ms.pins = append(ms.pins, fmt.Sprintf("(= %s %s)", gets[i], v.String()))
		}
	}
	return true
}

// ---- reification of symbolic values as Go literals ------------------------------------------

type reifier struct {
	ms      *modelSession
	vc      *VC
	st      *State
	pkg     *types.Package
	imports map[string]string // path -> name
	need    []Term
	missing bool
	err     string
	streams map[string]bool // names of variables bound to replay readers
	inputs  map[string]string
	capped  map[string]bool
}

func (r *reifier) qual(p *types.Package) string {
	if p == r.pkg {
		return ""
	}
	r.imports[p.Path()] = p.Name()
	return p.Name()
}

func (r *reifier) typeStr(T types.Type) string { return types.TypeString(T, r.qual) }

func (r *reifier) get(t Term) (modelVal, bool) {
	if v, ok := r.ms.vals[t.E]; ok {
		return v, true
	}
	r.need = append(r.need, t)
	r.missing = true
	return modelVal{}, false
}

func (r *reifier) fail(f string, a ...interface{}) string {
	if r.err == "" {
		r.err = fmt.Sprintf(f, a...)
	}
	return "nil"
}

func (r *reifier) intLit(t Term, T types.Type) (string, *big.Int) {
	mv, ok := r.get(t)
	if !ok {
		return "0", nil
	}
	var v *big.Int
	if t.S.K == KBV {
		bv, w, ok := mv.bv()
		if !ok {
			return r.fail("cannot read bit-vector value %s", mv.raw), nil
		}
		v = bv
		if isSigned(T) && w > 0 && v.Bit(w-1) == 1 {
			v = new(big.Int).Sub(v, new(big.Int).Lsh(big.NewInt(1), uint(w)))
		}
	} else {
		rt, ok := ratOf(mv.sexp)
		if !ok || !rt.IsInt() {
			return r.fail("cannot read integer value %s", mv.raw), nil
		}
		v = rt.Num()
	}
	return v.String(), v
}

func (r *reifier) scalar(t Term, T types.Type) string {
	bt, _ := T.Underlying().(*types.Basic)
	if bt == nil {
		return r.fail("scalar of type %v", T)
	}
	conv := func(s string) string { return r.typeStr(T) + "(" + s + ")" }
	switch {
	case bt.Info()&types.IsBoolean != 0:
		mv, ok := r.get(t)
		if !ok {
			return "false"
		}
		return conv(mv.raw)
	case bt.Info()&types.IsInteger != 0:
		s, _ := r.intLit(t, T)
		return conv(s)
	case bt.Info()&types.IsFloat != 0:
		mv, ok := r.get(t)
		if !ok {
			return "0"
		}
		if t.S.K == KFP {
			bits, tot, ok := mv.fpBits()
			if !ok {
				return r.fail("cannot read floating-point value %s", mv.raw)
			}
			r.imports["math"] = "math"
			if tot == 32 {
				return conv(fmt.Sprintf("math.Float32frombits(0x%x)", bits))
			}
			return conv(fmt.Sprintf("math.Float64frombits(0x%x)", bits))
		}
		rt, ok := ratOf(mv.sexp)
		if !ok {
			return r.fail("cannot read real value %s", mv.raw)
		}
		f, _ := rt.Float64()
		if bt.Kind() == types.Float32 {
			f = float64(float32(f))
		}
		if math.IsInf(f, 0) {
			return r.fail("real value out of float range")
		}
		return conv(strconv.FormatFloat(f, 'g', -1, 64))
	}
	return r.fail("unsupported scalar type %v", T)
}

func (r *reifier) value(v Val, T types.Type, name string) string {
	switch x := v.(type) {
	case Term:
		if x.S.K == KOpaque {
			// not modelled beyond identity (time.Time, strings, errors): the zero value stands in
			return "*new(" + r.typeStr(T) + ")"
		}
		if x.S.K == KArr {
			return r.fail("%s: value of sort %s has no Go literal", name, x.S.String())
		}
		return r.scalar(x, T)
	case StructVal:
		st, ok := T.Underlying().(*types.Struct)
		if !ok {
			return r.fail("%s: struct value for %v", name, T)
		}
		var fs []string
		for i := 0; i < st.NumFields(); i++ {
			f := st.Field(i)
			if !f.Exported() && f.Pkg() != r.pkg {
				// cannot be set from here; leave the zero value (image internals etc.)
				continue
			}
			fs = append(fs, f.Name()+": "+r.value(x.F[i], f.Type(), name+"."+f.Name()))
		}
		return r.typeStr(T) + "{" + strings.Join(fs, ", ") + "}"
	case ArrVal:
		at, ok := T.Underlying().(*types.Array)
		if !ok {
			return r.fail("%s: array value for %v", name, T)
		}
		var es []string
		for i := range x.E {
			es = append(es, r.value(x.E[i], at.Elem(), fmt.Sprintf("%s[%d]", name, i)))
		}
		return r.typeStr(T) + "{" + strings.Join(es, ", ") + "}"
	case PtrVal:
		pt, ok := T.Underlying().(*types.Pointer)
		if !ok {
			return r.fail("%s: pointer value for %v", name, T)
		}
		if x.Cell == nil {
			return "nil"
		}
		if len(x.Path) != 0 {
			return r.fail("%s: interior pointer", name)
		}
		pv, ok := r.st.mem[x.Cell]
		if !ok {
			return r.fail("%s: pointee unknown", name)
		}
		inner := r.value(pv, pt.Elem(), "*"+name)
		if _, isStruct := pt.Elem().Underlying().(*types.Struct); isStruct {
			return "&" + inner
		}
		return fmt.Sprintf("func() %s { v := %s; return &v }()", r.typeStr(T), inner)
	case SliceVal:
		sl, ok := T.Underlying().(*types.Slice)
		if !ok {
			return r.fail("%s: slice value for %v", name, T)
		}
		nilv, ok1 := r.get(x.IsNil)
		_, ln := r.intLit(x.Len, types.Typ[types.Int])
		if !r.capped[x.Len.E] {
			r.capped[x.Len.E] = true
			r.ms.extra = append(r.ms.extra, fmt.Sprintf("(%s %s %s)", cmpLe(x.Len), x.Len.E, constOf(x.Len, replayCap)))
		}
		if !ok1 || ln == nil {
			return "nil"
		}
		if nilv.raw == "true" {
			return r.typeStr(T) + "(nil)"
		}
		if ln.Cmp(big.NewInt(replayCap)) > 0 {
			return r.fail("%s: slice of %s elements is too large to materialise", name, ln.String())
		}
		arr, ok := r.st.mem[x.Base.Cell].(Term)
		if !ok || arr.S.K != KArr || len(x.Base.Path) != 0 {
			return r.fail("%s: slice backing store is not a plain array", name)
		}
		var es []string
		n := int(ln.Int64())
		for i := 0; i < n; i++ {
			idx := r.vc.iAdd(x.Off, r.vc.idx(int64(i)))
			es = append(es, r.scalar(Select(arr, idx), sl.Elem()))
		}
		return r.typeStr(T) + "{" + strings.Join(es, ", ") + "}"
	case IfaceVal:
		if p, ok := x.V.(PtrVal); ok && p.Cell != nil {
			if s, ok := r.st.mem[p.Cell].(Stream); ok {
				return r.stream(s, name)
			}
		}
		return r.fail("%s: interface value with dynamic type %v", name, x.Dyn)
	}
	return r.fail("%s: %T values cannot be materialised", name, v)
}

// gen: a Go expression producing a pseudo-random value of type T (witness search).
func (r *reifier) gen(T types.Type, ieee bool) string {
	switch t := T.Underlying().(type) {
	case *types.Basic:
		switch {
		case t.Info()&types.IsBoolean != 0:
			return r.typeStr(T) + "(vcRng.Intn(2) == 0)"
		case t.Info()&types.IsInteger != 0:
			bits := map[types.BasicKind]int{types.Int8: 8, types.Uint8: 8, types.Int16: 16, types.Uint16: 16, types.Int32: 32, types.Uint32: 32}[t.Kind()]
			if bits == 0 {
				bits = 64
			}
			return fmt.Sprintf("%s(vcRandU(%d))", r.typeStr(T), bits)
		case t.Info()&types.IsFloat != 0:
			if ieee {
				return r.typeStr(T) + "(vcRandFIEEE())"
			}
			return r.typeStr(T) + "(vcRandF())"
		}
	case *types.Struct:
		var fs []string
		for i := 0; i < t.NumFields(); i++ {
			f := t.Field(i)
			if !f.Exported() && f.Pkg() != r.pkg {
				continue
			}
			fs = append(fs, f.Name()+": "+r.gen(f.Type(), ieee))
		}
		return r.typeStr(T) + "{" + strings.Join(fs, ", ") + "}"
	case *types.Array:
		if t.Len() > 64 {
			break
		}
		var es []string
		for i := int64(0); i < t.Len(); i++ {
			es = append(es, r.gen(t.Elem(), ieee))
		}
		return r.typeStr(T) + "{" + strings.Join(es, ", ") + "}"
	case *types.Pointer:
		if _, ok := t.Elem().Underlying().(*types.Struct); ok {
			return "&" + r.gen(t.Elem(), ieee)
		}
	}
	return r.fail("no generator for type %v", T)
}

// genBytes: generator for a []byte parameter or a ghost byte stream (witness search). When the solver
// produced a model, the model's bytes are the seed that the search mutates (a failed inductive step
// gives a model that need not be reachable, but its bytes usually carry the magic numbers that let a
// parser get as far as the failing statement); otherwise the bytes are random.
func (r *reifier) genBytes(p replayParam, o *Obligation) string {
	isStream := false
	switch x := p.V.(type) {
	case SliceVal:
		sl, ok := p.T.Underlying().(*types.Slice)
		if !ok {
			return ""
		}
		if b, ok := sl.Elem().Underlying().(*types.Basic); !ok || b.Kind() != types.Uint8 {
			return ""
		}
	case IfaceVal:
		pv, ok := x.V.(PtrVal)
		if !ok || pv.Cell == nil {
			return ""
		}
		if _, ok := r.st.mem[pv.Cell].(Stream); !ok {
			return ""
		}
		isStream = true
	default:
		return ""
	}
	seed, pos := "", int64(0)
	if o.Result == "sat" && time.Until(replayDeadline) > 30*time.Second {
		saveCap := replayCap
		replayCap = 64
		lit := ""
		for round := 0; round < 6; round++ {
			r.need, r.missing, r.err = nil, false, ""
			lit = r.value(p.V, p.T, p.Name)
			if r.err != "" || !r.missing {
				break
			}
			if !r.ms.query(r.need) {
				lit = ""
				break
			}
		}
		if r.missing || r.err != "" {
			lit = ""
		}
		r.need, r.missing, r.err = nil, false, ""
		replayCap = saveCap
		if m := regexp.MustCompile(`^vcNewReader\("([0-9a-f]*)", (\d+), chunk\)$`).FindStringSubmatch(lit); m != nil {
			seed = m[1]
			pos, _ = strconv.ParseInt(m[2], 10, 64)
		} else if strings.HasPrefix(lit, "[]byte{") {
			var sb strings.Builder
			for _, m := range regexp.MustCompile(`byte\((\d+)\)`).FindAllStringSubmatch(lit, -1) {
				v, _ := strconv.Atoi(m[1])
				fmt.Fprintf(&sb, "%02x", v&0xff)
			}
			seed = sb.String()
		}
	}
	delete(r.inputs, strings.TrimPrefix(p.Name, "*"))
	if isStream {
		r.streams[strings.TrimPrefix(p.Name, "*")] = true
		return fmt.Sprintf("vcNewReaderBytes(vcMutBytes(%q), %d, chunk)", seed, pos)
	}
	return fmt.Sprintf("%s(vcMutBytes(%q))", r.typeStr(p.T), seed)
}

func cmpLe(t Term) string {
	if t.S.K == KBV {
		return "bvsle"
	}
	return "<="
}

func constOf(like Term, v int64) string {
	if like.S.K == KBV {
		return BVConst(big.NewInt(v), like.S.N, true).E
	}
	return IntConst(big.NewInt(v)).E
}

func (r *reifier) stream(s Stream, name string) string {
	if !r.capped[s.Len.E] {
		r.capped[s.Len.E] = true
		r.ms.extra = append(r.ms.extra, fmt.Sprintf("(%s %s %s)", cmpLe(s.Len), s.Len.E, constOf(s.Len, replayCap)))
	}
	_, ln := r.intLit(s.Len, types.Typ[types.Int])
	_, pos := r.intLit(s.Pos, types.Typ[types.Int])
	if ln == nil || pos == nil {
		return "nil"
	}
	if ln.Cmp(big.NewInt(replayCap)) > 0 || ln.Sign() < 0 {
		return r.fail("%s: stream of %s bytes is too large to materialise", name, ln.String())
	}
	n := int(ln.Int64())
	var sb strings.Builder
	complete := true
	for i := 0; i < n; i++ {
		b := Select(s.Data, r.vc.iAdd(s.Base, r.vc.idx(int64(i))))
		_, v := r.intLit(b, types.Typ[types.Uint8])
		if v == nil {
			complete = false
			continue
		}
		fmt.Fprintf(&sb, "%02x", v.Uint64()&0xff)
	}
	if !complete {
		return "nil"
	}
	name = strings.TrimPrefix(name, "*")
	r.streams[name] = true
	shown := sb.String()
	if len(shown) > 512 {
		shown = shown[:512] + fmt.Sprintf("… (%d bytes, complete in test_source)", n)
	}
	r.inputs[name] = "bytes(hex) " + shown
	return fmt.Sprintf("vcNewReader(%q, %d, chunk)", sb.String(), pos.Int64())
}

// ---- spec -> Go translation -----------------------------------------------------------------

type specToGo struct {
	r       *reifier
	eng     *Engine
	pkg     *ssa.Package
	tol     bool // real / rnd mode: float comparisons get a rounding allowance
	olds    []string
	ghosts  map[string]bool
	helpers map[string]bool
	accessors map[string]fieldAccessor
}

type unsupported struct{ what string }

func (tr *specToGo) bad(f string, a ...interface{}) { panic(unsupported{fmt.Sprintf(f, a...)}) }

func (tr *specToGo) translate(se *SpecExpr, pol int) (s string, err error) {
	defer func() {
		if x := recover(); x != nil {
			if u, ok := x.(unsupported); ok {
				err = fmt.Errorf("%s", u.what)
				return
			}
			panic(x)
		}
	}()
	return tr.spec(se, pol), nil
}

func (tr *specToGo) spec(se *SpecExpr, pol int) string {
	switch se.Kind {
	case "imp":
		return "(!(" + tr.spec(se.A, -pol) + ") || (" + tr.spec(se.B, pol) + "))"
	case "iff":
		return "((" + tr.spec(se.A, 0) + ") == (" + tr.spec(se.B, 0) + "))"
	case "forall", "exists":
		return tr.quant(se, pol)
	case "go":
		return tr.goExpr(se, pol)
	}
	tr.bad("spec node %s", se.Kind)
	return ""
}

func exprStr(e ast.Expr) string {
	var b bytes.Buffer
	printer.Fprint(&b, token.NewFileSet(), e)
	return b.String()
}

func mustParse(s string) ast.Expr {
	e, err := parser.ParseExpr(s)
	if err != nil {
		panic(unsupported{"generated expression does not parse: " + s})
	}
	return e
}

// conjuncts of a Go && chain
func conjuncts(e ast.Expr) []ast.Expr {
	if p, ok := e.(*ast.ParenExpr); ok {
		return conjuncts(p.X)
	}
	if b, ok := e.(*ast.BinaryExpr); ok && b.Op == token.LAND {
		return append(conjuncts(b.X), conjuncts(b.Y)...)
	}
	return []ast.Expr{e}
}

func (tr *specToGo) quant(se *SpecExpr, pol int) string {
	body := se.A
	var guard *SpecExpr
	if body.Kind == "imp" {
		guard = body.A
		body = body.B
	}
	if guard == nil || guard.Kind != "go" {
		tr.bad("quantifier without a bounding guard")
	}
	cs := conjuncts(guard.Go)
	type bnd struct{ lo, hi string }
	bounds := map[string]*bnd{}
	for _, v := range se.Vars {
		bounds[v.Name] = &bnd{}
	}
	isVar := func(e ast.Expr) (string, bool) {
		if id, ok := e.(*ast.Ident); ok {
			if _, ok := bounds[id.Name]; ok {
				return id.Name, true
			}
		}
		return "", false
	}
	sub := func(e ast.Expr) string {
		return tr.goExpr(&SpecExpr{Kind: "go", Go: e, Subs: guard.Subs}, 0)
	}
	for _, c := range cs {
		b, ok := c.(*ast.BinaryExpr)
		if !ok {
			continue
		}
		if v, ok := isVar(b.X); ok {
			switch b.Op {
			case token.LSS:
				bounds[v].hi = "int64(" + sub(b.Y) + ") - 1"
			case token.LEQ:
				bounds[v].hi = "int64(" + sub(b.Y) + ")"
			case token.GTR:
				bounds[v].lo = "int64(" + sub(b.Y) + ") + 1"
			case token.GEQ:
				bounds[v].lo = "int64(" + sub(b.Y) + ")"
			}
		} else if v, ok := isVar(b.Y); ok {
			switch b.Op {
			case token.LSS:
				bounds[v].lo = "int64(" + sub(b.X) + ") + 1"
			case token.LEQ:
				bounds[v].lo = "int64(" + sub(b.X) + ")"
			case token.GTR:
				bounds[v].hi = "int64(" + sub(b.X) + ") - 1"
			case token.GEQ:
				bounds[v].hi = "int64(" + sub(b.X) + ")"
			}
		}
	}
	g := tr.spec(guard, 0)
	b := tr.spec(body, pol)
	var sb strings.Builder
	sb.WriteString("func() bool { ")
	for _, v := range se.Vars {
		bd := bounds[v.Name]
		if bd.lo == "" || bd.hi == "" {
			tr.bad("quantified variable %s has no finite range", v.Name)
		}
		T := v.Type
		if T == "mathint" {
			T = "int64"
		}
		fmt.Fprintf(&sb, "for %s_ := vcRange(%s, %s); %s_ <= %s; %s_++ { %s := %s(%s_); _ = %s; ", v.Name, bd.lo, bd.hi, v.Name, bd.hi, v.Name, v.Name, T, v.Name, v.Name)
	}
	if se.Kind == "forall" {
		fmt.Fprintf(&sb, "if !(%s) { continue }; if !(%s) { return false }", g, b)
	} else {
		fmt.Fprintf(&sb, "if (%s) && (%s) { return true }", g, b)
	}
	for range se.Vars {
		sb.WriteString(" }")
	}
	if se.Kind == "forall" {
		sb.WriteString("; return true }()")
	} else {
		sb.WriteString("; return false }()")
	}
	tr.helpers["range"] = true
	return sb.String()
}

var unsupportedSpecFuncs = map[string]bool{"prev": true, "entry": true, "ufc": true, "neverwritten": true, "ret": true,
	"Sprintf": true, "Date": true, "utf16str": true, "asciistr": true, "recovered": true, "iterN": true}

func (tr *specToGo) goExpr(se *SpecExpr, pol int) string {
	root := mustParse(exprStr(se.Go)) // private copy
	// polarity of each comparison: computed top-down over &&, ||, !
	pols := map[ast.Node]int{}
	var walk func(e ast.Expr, p int)
	walk = func(e ast.Expr, p int) {
		switch x := e.(type) {
		case *ast.ParenExpr:
			walk(x.X, p)
		case *ast.UnaryExpr:
			if x.Op == token.NOT {
				walk(x.X, -p)
			}
		case *ast.BinaryExpr:
			switch x.Op {
			case token.LAND, token.LOR:
				walk(x.X, p)
				walk(x.Y, p)
			case token.EQL, token.NEQ, token.LSS, token.LEQ, token.GTR, token.GEQ:
				pols[x] = p
			}
		}
	}
	walk(root, pol)
	wrap := &ast.ParenExpr{X: root}
	res := astutil.Apply(wrap, nil, func(c *astutil.Cursor) bool {
		switch x := c.Node().(type) {
		case *ast.Ident:
			if strings.HasPrefix(x.Name, "SPEC__") {
				sub, ok := se.Subs[x.Name]
				if !ok {
					tr.bad("dangling placeholder")
				}
				c.Replace(&ast.ParenExpr{X: mustParse(tr.spec(sub, 0))})
			} else if x.Name == "iter" {
				tr.bad("iteration counter in a clause")
			}
		case *ast.SelectorExpr:
			if tr.r.streams[exprStr(x.X)] {
				switch x.Sel.Name {
				case "pos", "len", "avail":
					c.Replace(mustParse(fmt.Sprintf("vcStream%s(%s)", strings.Title(x.Sel.Name), exprStr(x.X))))
				}
			} else if acc := tr.foreignField(x.Sel.Name); acc != "" {
				c.Replace(&ast.CallExpr{Fun: ast.NewIdent(acc), Args: []ast.Expr{x.X}})
			} else if id, ok := x.X.(*ast.Ident); ok {
				if p := tr.eng.findPkgByName(tr.pkg, id.Name); p != nil && p != tr.pkg.Pkg {
					if _, isVar := tr.lookupLocal(id.Name); !isVar {
						tr.r.imports[p.Path()] = p.Name()
					}
				} else if isStdPkgName(id.Name) {
					if _, isVar := tr.lookupLocal(id.Name); !isVar {
						tr.r.imports[stdPkgPath(id.Name)] = id.Name
					}
				}
			}
		case *ast.BinaryExpr:
			if !tr.tol {
				return true
			}
			p, ok := pols[x]
			switch x.Op {
			case token.EQL, token.NEQ, token.LSS, token.LEQ, token.GTR, token.GEQ:
				if isNilIdent(x.X) || isNilIdent(x.Y) {
					return true
				}
				if !ok {
					p = 0
				}
				tr.helpers["cmp"] = true
				c.Replace(&ast.CallExpr{Fun: ast.NewIdent("vcCmp"), Args: []ast.Expr{
					&ast.BasicLit{Kind: token.STRING, Value: strconv.Quote(x.Op.String())}, x.X, x.Y,
					&ast.BasicLit{Kind: token.INT, Value: strconv.Itoa(p)}}})
			}
		case *ast.CallExpr:
			id, ok := x.Fun.(*ast.Ident)
			if !ok {
				return true
			}
			if unsupportedSpecFuncs[id.Name] {
				tr.bad("spec function %s is not replayable", id.Name)
			}
			if tr.ghosts["fun:"+id.Name] {
				tr.bad("ghost function %s", id.Name)
			}
			arg := func(i int) ast.Expr {
				if i >= len(x.Args) {
					tr.bad("%s: missing argument", id.Name)
				}
				return x.Args[i]
			}
			call := func(name string, args ...ast.Expr) {
				c.Replace(&ast.CallExpr{Fun: ast.NewIdent(name), Args: args})
			}
			conv := func(T string, e ast.Expr) ast.Expr {
				return &ast.CallExpr{Fun: ast.NewIdent(T), Args: []ast.Expr{e}}
			}
			switch id.Name {
			case "old":
				k := len(tr.olds)
				tr.olds = append(tr.olds, exprStr(arg(0)))
				c.Replace(ast.NewIdent(fmt.Sprintf("vcOld%d", k)))
			case "abs":
				tr.helpers["abs"] = true
				call("vcAbs", arg(0))
			case "real":
				call("float64", arg(0))
			case "mathint":
				call("int64", arg(0))
			case "isnan":
				tr.helpers["math"] = true
				call("vcIsNaN", conv("float64", arg(0)))
			case "isinf":
				tr.helpers["math"] = true
				call("vcIsInf", conv("float64", arg(0)))
			case "ite":
				tr.helpers["ite"] = true
				call("vcIte", arg(0), arg(1), arg(2))
			case "same":
				tr.helpers["cmp"] = true
				mode := "same"
				if tr.tol {
					mode = "=="
				}
				call("vcCmp", &ast.BasicLit{Kind: token.STRING, Value: strconv.Quote(mode)}, arg(0), arg(1), &ast.BasicLit{Kind: token.INT, Value: strconv.Itoa(pol)})
			case "u8", "be16", "be32", "be64", "le16", "le24", "le32":
				tr.helpers["stream"] = true
				call("vc"+strings.ToUpper(id.Name), arg(0), conv("int64", arg(1)))
			case "stream_err":
				tr.helpers["stream"] = true
				call("vcStreamErr", arg(0))
			case "stream_len":
				tr.helpers["stream"] = true
				call("vcStreamLen", arg(0))
			case "stream_at":
				tr.helpers["stream"] = true
				call("vcU8", arg(0), conv("int64", arg(1)))
			case "zlib_ok", "zlib_len":
				tr.helpers["stream"] = true
				call("vc"+strings.Title(strings.Replace(id.Name, "_", "", 1)), arg(0), conv("int64", arg(1)), conv("int64", arg(2)))
			case "zlib_at":
				tr.helpers["stream"] = true
				call("vcZlibat", arg(0), conv("int64", arg(1)), conv("int64", arg(2)), conv("int64", arg(3)))
			case "det3":
				tr.helpers["det3"] = true
				call("vcDet3", arg(0))
			case "Pow":
				tr.r.imports["math"] = "math"
				c.Replace(mustParse(fmt.Sprintf("math.Pow(float64(%s), float64(%s))", exprStr(arg(0)), exprStr(arg(1)))))
			case "rgba_r", "rgba_g", "rgba_b", "rgba_a":
				tr.helpers["rgba"] = true
				tr.r.imports["image/color"] = "color"
				k := strings.Index("rgba", id.Name[5:])
				call("vcRGBA", arg(0), &ast.BasicLit{Kind: token.INT, Value: strconv.Itoa(k)})
			}
		}
		return true
	})
	return exprStr(res.(*ast.ParenExpr))
}

// foreignField: an unexported field of a struct type declared in another repo package (e.g.
// meta.Data.iccProfileData) is read through a generated reflect/unsafe accessor.
func (tr *specToGo) foreignField(name string) string {
	if name == "" || !(name[0] >= 'a' && name[0] <= 'z') {
		return ""
	}
	if acc, ok := tr.accessors[name]; ok {
		return acc.fn
	}
	has := func(p *types.Package) (*types.Named, *types.Var) {
		var rn *types.Named
		var rv *types.Var
		n := 0
		for _, nm := range p.Scope().Names() {
			tn, ok := p.Scope().Lookup(nm).(*types.TypeName)
			if !ok {
				continue
			}
			named, ok := tn.Type().(*types.Named)
			if !ok {
				continue
			}
			st, ok := named.Underlying().(*types.Struct)
			if !ok {
				continue
			}
			for i := 0; i < st.NumFields(); i++ {
				if st.Field(i).Name() == name {
					rn, rv = named, st.Field(i)
					n++
				}
			}
		}
		if n == 1 {
			return rn, rv
		}
		if n > 1 {
			return nil, &types.Var{}
		}
		return nil, nil
	}
	if _, v := has(tr.pkg.Pkg); v != nil {
		return "" // the package's own field: plain selector compiles
	}
	var found *types.Named
	var fv *types.Var
	for _, sp := range tr.eng.byName {
		if sp.Pkg == tr.pkg.Pkg {
			continue
		}
		n, v := has(sp.Pkg)
		if n != nil {
			if found != nil {
				return ""
			}
			found, fv = n, v
		}
	}
	if found == nil {
		return ""
	}
	if tr.accessors == nil {
		tr.accessors = map[string]fieldAccessor{}
	}
	acc := fieldAccessor{fn: "vcF_" + name, recv: tr.r.typeStr(types.NewPointer(found)), typ: tr.r.typeStr(fv.Type()), field: name}
	tr.accessors[name] = acc
	tr.r.imports["unsafe"] = "unsafe"
	return acc.fn
}

type fieldAccessor struct{ fn, recv, typ, field string }

func isNilIdent(e ast.Expr) bool {
	if p, ok := e.(*ast.ParenExpr); ok {
		return isNilIdent(p.X)
	}
	id, ok := e.(*ast.Ident)
	return ok && id.Name == "nil"
}

var stdPkgs = map[string]string{"math": "math", "io": "io", "color": "image/color", "image": "image", "bytes": "bytes", "errors": "errors", "fmt": "fmt", "big": "math/big", "bits": "math/bits"}

func isStdPkgName(n string) bool { _, ok := stdPkgs[n]; return ok }
func stdPkgPath(n string) string { return stdPkgs[n] }

func (tr *specToGo) lookupLocal(name string) (string, bool) {
	if tr.ghosts[name] || tr.ghosts["param:"+name] {
		return name, true
	}
	return "", false
}

// ---- harness generation ---------------------------------------------------------------------

const replayHelpers = `
type vcReader struct {
	data   []byte
	pos    int
	chunk  int
	frozen bool
	fpos   int
}

// every reader handed to the call is registered; vcFreeze records the positions reached by the call
// itself, so that clauses which drain a returned stream afterwards do not disturb r.pos / r.avail
var vcReaders []*vcReader

type vcDrain struct {
	data []byte
	err  error
}

var vcDrained = map[interface{}]*vcDrain{}

func vcNewReader(h string, pos int64, chunk int) *vcReader {
	d, _ := hex.DecodeString(h)
	r := &vcReader{data: d, pos: int(pos), chunk: chunk}
	vcReaders = append(vcReaders, r)
	return r
}

func vcFreeze() {
	for _, r := range vcReaders {
		r.frozen, r.fpos = true, r.pos
	}
}

func vcResetReaders() {
	vcReaders = vcReaders[:0]
	vcDrained = map[interface{}]*vcDrain{}
}

// vcDrainOf reads a stream returned by the call to its end (once) and keeps what it delivered
func vcDrainOf(r interface{}) *vcDrain {
	if d, ok := vcDrained[r]; ok {
		return d
	}
	rd, ok := r.(io.Reader)
	if !ok {
		panic(fmt.Sprintf("not a stream: %T", r))
	}
	b, err := io.ReadAll(io.LimitReader(rd, 1<<24))
	if err == nil {
		err = io.EOF
	}
	d := &vcDrain{data: b, err: err}
	vcDrained[r] = d
	return d
}

func (r *vcReader) Read(p []byte) (int, error) {
	if r.pos >= len(r.data) {
		return 0, io.EOF
	}
	if len(p) == 0 {
		return 0, nil
	}
	n := len(p)
	if r.chunk > 0 && n > r.chunk {
		n = r.chunk
	}
	if n > len(r.data)-r.pos {
		n = len(r.data) - r.pos
	}
	copy(p, r.data[r.pos:r.pos+n])
	r.pos += n
	return n, nil
}

func (r *vcReader) ReadByte() (byte, error) {
	if r.pos >= len(r.data) {
		return 0, io.EOF
	}
	b := r.data[r.pos]
	r.pos++
	return b, nil
}

func vcD(r interface{}) []byte {
	if v, ok := r.(*vcReader); ok {
		return v.data
	}
	return vcDrainOf(r).data
}
func vcStreamPos(r interface{}) int {
	v := r.(*vcReader)
	if v.frozen {
		return v.fpos
	}
	return v.pos
}
func vcStreamLen(r interface{}) int   { return len(vcD(r)) }
func vcStreamAvail(r interface{}) int { return len(vcD(r)) - vcStreamPos(r) }
func vcStreamErr(r interface{}) error {
	if _, ok := r.(*vcReader); ok {
		return io.EOF
	}
	return vcDrainOf(r).err
}
func vcU8(r interface{}, o int64) uint8 { return vcD(r)[o] }
func vcBE16(r interface{}, o int64) uint16 { return uint16(vcD(r)[o])<<8 | uint16(vcD(r)[o+1]) }
func vcLE16(r interface{}, o int64) uint16 { return uint16(vcD(r)[o+1])<<8 | uint16(vcD(r)[o]) }
func vcLE24(r interface{}, o int64) uint32 {
	return uint32(vcD(r)[o+2])<<16 | uint32(vcD(r)[o+1])<<8 | uint32(vcD(r)[o])
}
func vcBE32(r interface{}, o int64) uint32 {
	return uint32(vcD(r)[o])<<24 | uint32(vcD(r)[o+1])<<16 | uint32(vcD(r)[o+2])<<8 | uint32(vcD(r)[o+3])
}
func vcLE32(r interface{}, o int64) uint32 {
	return uint32(vcD(r)[o+3])<<24 | uint32(vcD(r)[o+2])<<16 | uint32(vcD(r)[o+1])<<8 | uint32(vcD(r)[o])
}
func vcBE64(r interface{}, o int64) uint64 { return uint64(vcBE32(r, o))<<32 | uint64(vcBE32(r, o+4)) }
func vcInflate(r interface{}, o, n int64) ([]byte, bool) {
	zr, err := zlib.NewReader(bytes.NewReader(vcD(r)[o : o+n]))
	if err != nil {
		return nil, false
	}
	out, err := io.ReadAll(zr)
	if err != nil {
		return nil, false
	}
	return out, true
}
func vcZlibok(r interface{}, o, n int64) bool  { _, ok := vcInflate(r, o, n); return ok }
func vcZliblen(r interface{}, o, n int64) int  { b, _ := vcInflate(r, o, n); return len(b) }
func vcZlibat(r interface{}, o, n, j int64) byte { b, _ := vcInflate(r, o, n); return b[j] }

func vcRange(lo, hi int64) int64 {
	if hi-lo > 1<<22 {
		panic("vcgo: quantifier range too large to enumerate")
	}
	return lo
}

func vcAbs[T ~int | ~int8 | ~int16 | ~int32 | ~int64 | ~float32 | ~float64](x T) T {
	if x < 0 {
		return -x
	}
	return x
}
func vcIsNaN(x float64) bool { return math.IsNaN(x) }
func vcIsInf(x float64) bool { return math.IsInf(x, 0) }
func vcIte[T any](c bool, a, b T) T {
	if c {
		return a
	}
	return b
}
func vcDet3(x interface{}) float64 {
	v := reflect.ValueOf(x)
	var m [3][3]float64
	for i := 0; i < 3; i++ {
		for j := 0; j < 3; j++ {
			m[i][j] = v.Index(i).Index(j).Float()
		}
	}
	return m[0][0]*(m[1][1]*m[2][2]-m[2][1]*m[1][2]) - m[1][0]*(m[0][1]*m[2][2]-m[2][1]*m[0][2]) + m[2][0]*(m[0][1]*m[1][2]-m[1][1]*m[0][2])
}

// vcCmp compares two values. pol > 0: the comparison sits in a positive position of the clause and
// is given a rounding allowance in its favour; pol < 0: it guards the clause and must hold with a
// margin; pol == 0: exact. Integers and everything that is not a float are always compared exactly.
const vcTol = 1e-4

func vcCmp[T any](op string, a, b T, pol int) bool {
	va, vb := reflect.ValueOf(a), reflect.ValueOf(b)
	switch op {
	case "==":
		return vcDeepEq(va, vb, pol > 0, false)
	case "same":
		return vcDeepEq(va, vb, false, true)
	case "!=":
		return !vcDeepEq(va, vb, pol < 0, false)
	}
	var x, y float64
	switch va.Kind() {
	case reflect.Float32, reflect.Float64:
		x, y = va.Float(), vb.Float()
	case reflect.Int, reflect.Int8, reflect.Int16, reflect.Int32, reflect.Int64:
		return vcOrd(op, va.Int(), vb.Int())
	case reflect.Uint, reflect.Uint8, reflect.Uint16, reflect.Uint32, reflect.Uint64, reflect.Uintptr:
		return vcOrd(op, va.Uint(), vb.Uint())
	default:
		panic("vcgo: ordered comparison of " + va.Kind().String())
	}
	slack := vcTol * math.Max(1, math.Max(math.Abs(x), math.Abs(y))) * float64(pol)
	switch op {
	case "<":
		return x < y+slack
	case "<=":
		return x <= y+slack
	case ">":
		return x > y-slack
	case ">=":
		return x >= y-slack
	}
	panic("vcgo: operator " + op)
}

func vcOrd[T int64 | uint64](op string, x, y T) bool {
	switch op {
	case "<":
		return x < y
	case "<=":
		return x <= y
	case ">":
		return x > y
	}
	return x >= y
}

func vcDeepEq(a, b reflect.Value, approx, bits bool) bool {
	if !a.IsValid() || !b.IsValid() {
		return a.IsValid() == b.IsValid()
	}
	switch a.Kind() {
	case reflect.Float32, reflect.Float64:
		x, y := a.Float(), b.Float()
		if bits {
			return math.Float64bits(x) == math.Float64bits(y) || (x != x && y != y)
		}
		if approx {
			return math.Abs(x-y) <= vcTol*math.Max(1, math.Max(math.Abs(x), math.Abs(y)))
		}
		return x == y
	case reflect.Array, reflect.Slice:
		if a.Len() != b.Len() {
			return false
		}
		for i := 0; i < a.Len(); i++ {
			if !vcDeepEq(a.Index(i), b.Index(i), approx, bits) {
				return false
			}
		}
		return true
	case reflect.Struct:
		for i := 0; i < a.NumField(); i++ {
			if !vcDeepEq(a.Field(i), b.Field(i), approx, bits) {
				return false
			}
		}
		return true
	case reflect.Int, reflect.Int8, reflect.Int16, reflect.Int32, reflect.Int64:
		return a.Int() == b.Int()
	case reflect.Uint, reflect.Uint8, reflect.Uint16, reflect.Uint32, reflect.Uint64, reflect.Uintptr:
		return a.Uint() == b.Uint()
	case reflect.Bool:
		return a.Bool() == b.Bool()
	case reflect.String:
		return a.String() == b.String()
	case reflect.Interface, reflect.Pointer:
		if a.IsNil() || b.IsNil() {
			return a.IsNil() == b.IsNil()
		}
		if a.Kind() == reflect.Pointer {
			return a.Pointer() == b.Pointer()
		}
		return a.Elem().Type() == b.Elem().Type() && vcDeepEq(a.Elem(), b.Elem(), approx, bits)
	}
	panic("vcgo: comparison of " + a.Kind().String())
}

func vcRGBA(c color.Color, k int) uint32 {
	r, g, b, a := c.RGBA()
	return [4]uint32{r, g, b, a}[k]
}

var (
	vcReport   = true
	vcBad      bool
	vcPanicked bool
	vcRng      *rand.Rand
)

func vcSay(f string, a ...interface{}) {
	if vcReport {
		fmt.Printf(f, a...)
	}
}

func vcClause(label string, f func() bool) {
	defer func() {
		if x := recover(); x != nil {
			vcSay("VCGO-REPLAY clause=%s error=%v\n", label, x)
		}
	}()
	h := f()
	if !h {
		vcBad = true
	}
	vcSay("VCGO-REPLAY clause=%s holds=%v\n", label, h)
}

func vcReq(f func() bool) (ok bool) {
	defer func() {
		if recover() != nil {
			ok = false
		}
	}()
	return f()
}

// input generators for the witness search: boundary values mixed with uniform ones
func vcRandU(bits int) uint64 {
	max := uint64(1)<<uint(bits) - 1
	if bits == 64 {
		max = ^uint64(0)
	}
	switch vcRng.Intn(10) {
	case 0:
		return 0
	case 1:
		return max
	case 2:
		return uint64(vcRng.Intn(4))
	case 3:
		return max - uint64(vcRng.Intn(4))
	case 4:
		return max/2 + uint64(vcRng.Intn(3))
	}
	return vcRng.Uint64() & max
}

var vcFloatEdges = []float64{0, 1, -1, 0.5, 0.25, 2, -0.5, 1e-9, -1e-9, 0.0031308, 0.04045, 0.003, 0.04, 0.008856, 0.2068, 0.9999999, 1.0000001, 100, 1e6, 1e30, -1e30, 1e-30}

func vcRandF() float64 {
	switch vcRng.Intn(8) {
	case 0:
		return vcFloatEdges[vcRng.Intn(len(vcFloatEdges))]
	case 1:
		return vcRng.Float64()*3 - 1
	case 2:
		return vcRng.NormFloat64() * 100
	case 3:
		return vcRng.Float64() * 0.05
	}
	return vcRng.Float64()
}

func vcRandByte() byte {
	switch vcRng.Intn(6) {
	case 0:
		return 0
	case 1:
		return 1
	case 2:
		return 0xff
	case 3:
		return byte(vcRng.Intn(8))
	}
	return byte(vcRng.Intn(256))
}

// vcMutBytes: the seed (bytes of the solver's model, possibly empty) with a few bytes changed, cut
// short or extended; now and then entirely random bytes
func vcMutBytes(seedHex string) []byte {
	seed, _ := hex.DecodeString(seedHex)
	var b []byte
	if len(seed) == 0 || vcRng.Intn(6) == 0 {
		n := vcRng.Intn(40)
		if vcRng.Intn(4) == 0 {
			n = vcRng.Intn(300)
		}
		b = make([]byte, n)
		for i := range b {
			b[i] = vcRandByte()
		}
	} else {
		b = append([]byte(nil), seed...)
	}
	for k := vcRng.Intn(4); k > 0 && len(b) > 0; k-- {
		b[vcRng.Intn(len(b))] = vcRandByte()
	}
	switch vcRng.Intn(8) {
	case 0:
		b = b[:vcRng.Intn(len(b)+1)]
	case 1:
		for k := 1 + vcRng.Intn(16); k > 0; k-- {
			b = append(b, vcRandByte())
		}
	case 2:
		ext := make([]byte, 4000+vcRng.Intn(6000))
		if vcRng.Intn(2) == 0 {
			for i := range ext {
				ext[i] = byte(vcRng.Intn(256))
			}
		}
		b = append(b, ext...)
	}
	return b
}

func vcNewReaderBytes(b []byte, pos int64, chunk int) *vcReader {
	if pos < 0 || pos > int64(len(b)) {
		pos = 0
	}
	r := &vcReader{data: b, pos: int(pos), chunk: chunk}
	vcReaders = append(vcReaders, r)
	return r
}

func vcRandFIEEE() float64 {
	switch vcRng.Intn(12) {
	case 0:
		return math.NaN()
	case 1:
		return math.Inf(1 - 2*vcRng.Intn(2))
	case 2:
		return float64(math.Float32frombits(vcRng.Uint32()))
	case 3:
		return math.Float64frombits(vcRng.Uint64())
	case 4:
		return math.Copysign(0, -1)
	}
	return vcRandF()
}
`

var helperImports = map[string]string{"bytes": "bytes", "compress/zlib": "zlib", "encoding/hex": "hex", "fmt": "fmt", "io": "io", "math": "math", "reflect": "reflect", "testing": "testing", "image/color": "color", "time": "time", "math/rand": "rand"}

type replayClause struct {
	Label string
	Go    string
	Skip  string
}

func goIdent(name string) string {
	if name == "" || name == "_" {
		return "vcAnon"
	}
	return name
}

// buildReplay produces the Go source of the replay test for an obligation, or an explanation of
// why the obligation cannot be replayed.
func buildReplay(eng *Engine, o *Obligation, ent *replayEntry, search bool) (src string, inputs map[string]string, why string) {
	vc := o.vc
	ms := &modelSession{o: o, vals: map[string]modelVal{}}
	r := &reifier{ms: ms, vc: vc, st: ent.st, pkg: ent.pkg.Pkg, imports: map[string]string{}, streams: map[string]bool{}, inputs: map[string]string{}, capped: map[string]bool{}}
	all := append(append([]replayParam(nil), ent.params...), ent.ghosts...)
	var lits []string
	if search {
		for _, p := range all {
			var g string
			switch p.Spec {
			case "mathint":
				g = "int64(vcRandU(18)) - 65536*int64(vcRandU(1))"
			case "mathreal":
				g = "vcRandF()"
			default:
				if bg := r.genBytes(p, o); bg != "" {
					g = bg
				} else {
					g = r.gen(p.T, ent.mode == "ieee")
				}
			}
			lits = append(lits, g)
		}
		if r.err != "" {
			return "", nil, "no input generator: " + r.err
		}
		r.inputs["(model)"] = "search"
	}
	for round := 0; round < 6 && !search; round++ {
		r.need, r.missing, r.err = nil, false, ""
		lits = lits[:0]
		for _, p := range all {
			if p.Spec == "mathint" || p.Spec == "mathreal" {
				t := p.V.(Term)
				mv, ok := r.get(t)
				lit := "0"
				if ok {
					rt, ok2 := ratOf(mv.sexp)
					if !ok2 {
						r.fail("cannot read value of %s", p.Name)
					} else if p.Spec == "mathint" {
						lit = "int64(" + rt.Num().String() + ")"
					} else {
						f, _ := rt.Float64()
						lit = "float64(" + strconv.FormatFloat(f, 'g', -1, 64) + ")"
					}
				}
				lits = append(lits, lit)
				continue
			}
			lits = append(lits, r.value(p.V, p.T, p.Name))
		}
		if r.err != "" {
			return "", nil, r.err
		}
		if !r.missing {
			break
		}
		if !ms.query(r.need) {
			return "", nil, "no model values: " + strings.Join(ms.log, "; ")
		}
	}
	if r.missing && !search {
		return "", nil, "model values did not settle"
	}
	if !search {
		r.inputs["(model)"] = ms.variant
	}
	for i, p := range all {
		if search {
			break
		}
		if _, ok := r.inputs[p.Name]; !ok {
			s := lits[i]
			if len(s) > 600 {
				s = s[:600] + "…"
			}
			r.inputs[p.Name] = s
		}
	}

	tr := &specToGo{r: r, eng: eng, pkg: ent.pkg, tol: ent.mode != "ieee", ghosts: map[string]bool{}, helpers: map[string]bool{}}
	for _, p := range all {
		tr.ghosts["param:"+p.Name] = true
	}
	if ent.fc != nil {
		for _, gf := range ent.fc.GhostFuns {
			tr.ghosts["fun:"+gf.Name] = true
		}
	}
	var clauses []replayClause
	if ent.lemma != nil {
		g, err := tr.translate(ent.lemma.Expr, 1)
		if err != nil {
			return "", nil, "lemma not replayable: " + err.Error()
		}
		clauses = append(clauses, replayClause{Label: ent.lemma.Name, Go: g})
	} else {
		for _, c := range ent.fc.Clauses {
			if c.Kind != "ensures" || (c.Case != "" && c.Case != ent.caseName) {
				continue
			}
			g, err := tr.translate(c.Expr, 1)
			if err != nil {
				clauses = append(clauses, replayClause{Label: c.Label, Skip: err.Error()})
				continue
			}
			clauses = append(clauses, replayClause{Label: c.Label, Go: g})
		}
	}

	var body strings.Builder
	for i, p := range all {
		fmt.Fprintf(&body, "\t%s := %s\n\t_ = %s\n", goIdent(p.Name), lits[i], goIdent(p.Name))
		if search && strings.HasPrefix(lits[i], "vcNewReaderBytes(") {
			fmt.Fprintf(&body, "\tvcSay(\"VCGO-REPLAY input %s=bytes(hex) %%x pos=%%d\\n\", %s.data, %s.pos)\n", goIdent(p.Name), goIdent(p.Name), goIdent(p.Name))
		} else if search {
			fmt.Fprintf(&body, "\tvcSay(\"VCGO-REPLAY input %s=%%#v\\n\", %s)\n", goIdent(p.Name), goIdent(p.Name))
		}
	}
	if search {
		var reqs []*Clause
		if ent.lemma == nil {
			for _, c := range ent.fc.Clauses {
				if c.Kind == "requires" && (c.Case == "" || c.Case == ent.caseName) {
					reqs = append(reqs, c)
				}
			}
			for _, cd := range ent.fc.Cases {
				if cd.Name == ent.caseName {
					return "", nil, "case-bound inputs are not searched"
				}
			}
		}
		for _, c := range reqs {
			g, err := tr.translate(c.Expr, -1)
			if err != nil {
				return "", nil, "precondition " + c.Label + " cannot be evaluated: " + err.Error()
			}
			fmt.Fprintf(&body, "\tif !vcReq(func() bool { return %s }) {\n\t\treturn\n\t}\n", g)
		}
	}
	if !search && ent.lemma == nil {
		// the model's input must satisfy the contract's preconditions on the real values too (it does by
		// construction for the full assumption set; a candidate from the pruned query may not): a violated or
		// unevaluable precondition means the run proves nothing
		for _, c := range ent.fc.Clauses {
			if c.Kind != "requires" || !(c.Case == "" || c.Case == ent.caseName) {
				continue
			}
			g, err := tr.translate(c.Expr, -1)
			if err != nil {
				if ms.variant == "pruned" {
					fmt.Fprintf(&body, "\tfmt.Println(%q)\n\treturn\n", "VCGO-REPLAY precondition="+c.Label+" not-evaluable: candidate input from the pruned query is not used")
				}
				continue
			}
			fmt.Fprintf(&body, "\tif !vcReq(func() bool { return %s }) {\n\t\tfmt.Println(%q)\n\t\treturn\n\t}\n", g, "VCGO-REPLAY precondition="+c.Label+" holds=false: the candidate input is outside the contract's domain")
		}
	}
	// old(...) snapshots are taken before the call
	for k, e := range tr.olds {
		oe, err := tr.translate(&SpecExpr{Kind: "go", Go: mustParseSafe(e), Subs: map[string]*SpecExpr{}}, 0)
		if err != nil {
			return "", nil, "old(): " + err.Error()
		}
		fmt.Fprintf(&body, "\tvcOld%d := %s\n\t_ = vcOld%d\n", k, oe, k)
	}
	if ent.lemma == nil {
		fn := ent.fn
		sig := fn.Signature
		var args []string
		for _, p := range ent.params {
			args = append(args, goIdent(p.Name))
		}
		call := ""
		if sig.Recv() != nil {
			call = fmt.Sprintf("%s.%s(%s)", args[0], fn.Name(), strings.Join(args[1:], ", "))
		} else {
			call = fmt.Sprintf("%s(%s)", fn.Name(), strings.Join(args, ", "))
		}
		if sig.Variadic() {
			return "", nil, "variadic function"
		}
		nres := sig.Results().Len()
		var rs []string
		for i := 0; i < nres; i++ {
			rs = append(rs, fmt.Sprintf("result%d", i))
		}
		body.WriteString("\tvcSay(\"VCGO-REPLAY call\\n\")\n")
		if nres > 0 {
			fmt.Fprintf(&body, "\t%s := %s\n", strings.Join(rs, ", "), call)
			for i := 0; i < nres; i++ {
				fmt.Fprintf(&body, "\t_ = result%d\n", i)
				if n := sig.Results().At(i).Name(); n != "" && n != "_" {
					fmt.Fprintf(&body, "\t%s := result%d\n\t_ = %s\n", n, i, n)
				}
			}
			if nres == 1 {
				body.WriteString("\tresult := result0\n\t_ = result\n")
			}
		} else {
			fmt.Fprintf(&body, "\t%s\n", call)
		}
		body.WriteString("\tvcSay(\"VCGO-REPLAY returned\\n\")\n")
		body.WriteString("\tvcFreeze()\n")
	}
	for _, c := range clauses {
		if c.Skip != "" {
			fmt.Fprintf(&body, "\tvcSay(\"%%s\\n\", %q)\n", "VCGO-REPLAY clause="+c.Label+" skipped="+c.Skip)
			continue
		}
		fmt.Fprintf(&body, "\tvcClause(%q, func() bool { return %s })\n", c.Label, c.Go)
	}

	for p, n := range helperImports {
		if p == "image/color" && !tr.helpers["rgba"] {
			if _, used := r.imports[p]; !used {
				continue
			}
		}
		r.imports[p] = n
	}
	helpers := replayHelpers
	if _, ok := r.imports["image/color"]; !ok {
		// drop the one helper that needs image/color
		i := strings.Index(helpers, "func vcRGBA(")
		j := strings.Index(helpers, "var (\n\tvcReport")
		helpers = helpers[:i] + helpers[j:]
	}
	var sb strings.Builder
	fmt.Fprintf(&sb, "//go:build go1.18\n\npackage %s\n\n// Generated by vcgo: replay of a solver counterexample against the real code.\n// obligation: %s\n\nimport (\n", ent.pkg.Pkg.Name(), o.Name)
	var paths []string
	for p := range r.imports {
		paths = append(paths, p)
	}
	sort.Strings(paths)
	for _, p := range paths {
		n := r.imports[p]
		if n == filepath.Base(p) {
			fmt.Fprintf(&sb, "\t%q\n", p)
		} else {
			fmt.Fprintf(&sb, "\t%s %q\n", n, p)
		}
	}
	sb.WriteString(")\n")
	sb.WriteString(helpers)
	var accNames []string
	for n := range tr.accessors {
		accNames = append(accNames, n)
	}
	sort.Strings(accNames)
	for _, n := range accNames {
		a := tr.accessors[n]
		fmt.Fprintf(&sb, "\nfunc %s(x %s) %s {\n\tf := reflect.ValueOf(x).Elem().FieldByName(%q)\n\treturn *(*%s)(unsafe.Pointer(f.UnsafeAddr()))\n}\n", a.fn, a.recv, a.typ, a.field, a.typ)
	}
	sb.WriteString("\nvar _ = hex.DecodeString\nvar _ = zlib.NewReader\nvar _ = bytes.NewReader\nvar _ = reflect.ValueOf\nvar _ = math.Abs\nvar _ io.Reader\nvar _ = time.Now\nvar _ = rand.New\n")
	sb.WriteString("\nfunc vcRun(chunk int) {\n\tvcResetReaders()\n\tdefer func() {\n\t\tif x := recover(); x != nil {\n\t\t\tvcPanicked = true\n\t\t\tvcSay(\"VCGO-REPLAY panic=%v\\n\", x)\n\t\t}\n\t}()\n")
	sb.WriteString(body.String())
	sb.WriteString("}\n\nfunc TestVcgoReplay(t *testing.T) {\n")
	if search {
		safety := map[string]bool{"bounds": true, "nil": true, "div": true, "panic": true, "alloc": true, "conv": true, "shift": true, "assert": true}
		fmt.Fprintf(&sb, "\twantPanic := %v\n", safety[o.Kind])
		sb.WriteString(`	vcReport = false
	start := time.Now()
	i := int64(0)
	for ; i < 2000000 && time.Since(start) < 4*time.Second; i++ {
		vcBad, vcPanicked = false, false
		vcRng = rand.New(rand.NewSource(i))
		chunk := []int{0, 0, 1, 3, 7}[i%5]
		vcRun(chunk)
		if vcBad || (vcPanicked && wantPanic) {
			fmt.Printf("VCGO-REPLAY search found a failing input at trial %d (reader-chunk=%d)\n", i, chunk)
			vcReport = true
			vcRng = rand.New(rand.NewSource(i))
			vcRun(chunk)
			return
		}
	}
	fmt.Printf("VCGO-REPLAY search exhausted after %d trials\n", i)
`)
	} else if len(r.streams) > 0 {
		sb.WriteString("\tfor _, chunk := range []int{0, 1, 3} {\n\t\tfmt.Printf(\"VCGO-REPLAY reader-chunk=%d\\n\", chunk)\n\t\tvcRun(chunk)\n\t}\n")
	} else {
		sb.WriteString("\tvcRun(0)\n")
	}
	sb.WriteString("}\n")
	return sb.String(), r.inputs, ""
}

func mustParseSafe(s string) ast.Expr {
	e, err := parser.ParseExpr(s)
	if err != nil {
		return ast.NewIdent("vcUnparsable")
	}
	return e
}

// runReplayTest injects the generated test into the package with -overlay and runs it.
func runReplayTest(repoDir, pkgDir, src string) (string, error) {
	dir, err := os.MkdirTemp("", "vcgo-replay")
	if err != nil {
		return "", err
	}
	defer os.RemoveAll(dir)
	tf := filepath.Join(dir, "vcgo_replay_test.go")
	if err := os.WriteFile(tf, []byte(src), 0o644); err != nil {
		return "", err
	}
	ov := map[string]map[string]string{"Replace": {filepath.Join(repoDir, pkgDir, "vcgo_replay_test.go"): tf}}
	ob, _ := json.Marshal(ov)
	ovf := filepath.Join(dir, "overlay.json")
	os.WriteFile(ovf, ob, 0o644)
	ctx, cancel := context.WithTimeout(context.Background(), 180*time.Second)
	defer cancel()
	cmd := exec.CommandContext(ctx, "go", "test", "-overlay", ovf, "-vet=off", "-v", "-count=1", "-timeout", "60s", "-run", "^TestVcgoReplay$", "./"+pkgDir)
	cmd.Dir = repoDir
	cmd.Env = append(os.Environ(), "GOFLAGS=-mod=mod", "GOPROXY=off", "GOSUMDB=off", "GOTOOLCHAIN=local")
	out, err := cmd.CombinedOutput()
	return string(out), err
}

// judgeReplay reads the harness output: which clauses evaluated false, whether the code panicked.
func judgeReplay(o *Obligation, out string) (confirmed bool, summary string) {
	var failed, panics []string
	seen := map[string]bool{}
	for _, ln := range strings.Split(out, "\n") {
		ln = strings.TrimSpace(ln)
		if !strings.HasPrefix(ln, "VCGO-REPLAY ") {
			continue
		}
		rest := strings.TrimPrefix(ln, "VCGO-REPLAY ")
		if strings.HasPrefix(rest, "panic=") {
			panics = append(panics, strings.TrimPrefix(rest, "panic="))
		}
		if strings.HasPrefix(rest, "clause=") && strings.HasSuffix(rest, "holds=false") {
			l := strings.TrimSuffix(strings.TrimPrefix(rest, "clause="), " holds=false")
			if !seen[l] {
				seen[l] = true
				failed = append(failed, l)
			}
		}
	}
	safety := map[string]bool{"bounds": true, "nil": true, "div": true, "panic": true, "alloc": true, "conv": true, "shift": true, "assert": true}
	if len(failed) > 0 {
		return true, "the real code, run on the model's input, violates clause(s) " + strings.Join(failed, ", ")
	}
	if len(panics) > 0 && (safety[o.Kind] || strings.HasPrefix(o.Kind, "panic")) {
		return true, "the real code, run on the model's input, panics: " + panics[0]
	}
	if len(panics) > 0 {
		return false, "the real code panicked on the model's input (" + panics[0] + "), which this obligation does not forbid"
	}
	return false, "the model's input does not make the real code violate a translated clause"
}

func tryReplay(eng *Engine, o *Obligation, dir string) (rr replayResult) {
	defer func() {
		if x := recover(); x != nil {
			rr = replayResult{text: fmt.Sprintf("replay generation failed: %v", x)}
		}
	}()
	if o.vc == nil || o.vc.entries == nil {
		return replayResult{}
	}
	if time.Until(replayDeadline) < 5*time.Second {
		return replayResult{text: "replay time budget exhausted"}
	}
	ent := o.vc.entries[o.Func]
	if ent == nil {
		return replayResult{text: "no entry record for " + o.Func}
	}
	if ent.fn != nil {
		fn := ent.fn
		if fn.Parent() != nil || len(fn.TypeArgs()) > 0 || (fn.Name() == "init" && fn.Synthetic != "") {
			return replayResult{text: "closures, instantiated generics and package initialisers are not replayed"}
		}
	}
	pkgPath := ent.pkg.Pkg.Path()
	pkgDir := strings.TrimPrefix(strings.TrimPrefix(pkgPath, eng.modPath), "/")
	if pkgDir == "" {
		pkgDir = "."
	}
	var notes []string
	var out string
	// an obligation the solvers left undecided rarely yields a model within the budget: search first
	order := []bool{false, true}
	if o.Result != "sat" {
		order = []bool{true, false}
	}
	for _, search := range order {
		var src, why string
		var inputs map[string]string
		if !search && o.Kind == "generate" {
			continue
		}
		if !search {
			for _, c := range []int64{48, 512, 4096} {
				replayCap = c
				src, inputs, why = buildReplay(eng, o, ent, false)
				// a larger cap only helps when the capped query was refuted, not when it timed out
				if src != "" || !strings.HasPrefix(why, "no model values") || !strings.Contains(why, "unsat") {
					break
				}
			}
		} else {
			if time.Until(replayDeadline) < 8*time.Second {
				break
			}
			src, inputs, why = buildReplay(eng, o, ent, true)
		}
		what := "model replay"
		if search {
			what = "witness search"
		}
		if src == "" {
			notes = append(notes, what+" not possible: "+why)
			continue
		}
		out, _ = runReplayTest(eng.repoDir, pkgDir, src)
		if !strings.Contains(out, "VCGO-REPLAY") {
			notes = append(notes, what+": test did not run: "+firstLines(out, 12))
			continue
		}
		ok, text := judgeReplay(o, out)
		if search {
			for _, ln := range strings.Split(out, "\n") {
				if i := strings.Index(ln, "VCGO-REPLAY input "); i >= 0 {
					kv := strings.SplitN(ln[i+len("VCGO-REPLAY input "):], "=", 2)
					if len(kv) == 2 {
						inputs[kv[0]] = strings.TrimSpace(kv[1])
					}
				}
			}
			if ok {
				text = strings.Replace(text, "run on the model's input", "run on an input found by a search over the contract's preconditions", 1)
			} else {
				text = "the witness search found no failing input"
			}
		}
		if rr.source == "" || ok {
			rr.source, rr.pkgDir, rr.inputs = src, pkgDir, inputs
			rr.note = ""
			if inputs["(model)"] == "pruned" {
				rr.note = "candidate input taken from the cone-of-influence query's model"
			}
			if search {
				rr.note = "input found by pseudo-random search over the contract's preconditions (fixed seeds; the test source re-runs the same search)"
			}
		}
		notes = append(notes, what+": "+text)
		if ok {
			rr.confirmed = true
			rr.failedClause = map[string]bool{}
			for _, ln := range strings.Split(out, "\n") {
				ln = strings.TrimSpace(ln)
				if strings.HasPrefix(ln, "VCGO-REPLAY clause=") && strings.HasSuffix(ln, " holds=false") {
					rr.failedClause[strings.TrimSuffix(strings.TrimPrefix(ln, "VCGO-REPLAY clause="), " holds=false")] = true
				}
			}
			break
		}
	}
	rr.text = strings.Join(notes, "\n")
	if out == "" {
		return rr
	}
	var keep []string
	for _, ln := range strings.Split(out, "\n") {
		if strings.HasPrefix(strings.TrimSpace(ln), "VCGO-REPLAY") {
			keep = append(keep, strings.TrimSpace(ln))
		}
	}
	if len(keep) > 40 {
		keep = keep[:40]
	}
	rr.text += "\n" + strings.Join(keep, "\n")
	return rr
}
