package main

import (
	"encoding/json"
	"fmt"
	"os"
	"path/filepath"
	"regexp"
	"sort"
	"strconv"
	"strings"
	"time"

	"golang.org/x/tools/go/ssa"
)

var verifDir = "/verif"
var saveN int

func main() {
	if len(os.Args) < 2 {
		fmt.Fprintln(os.Stderr, "usage: vcgo check <ID> [--tier quick|thorough] | dump <pkg.Func> [mode] | list")
		os.Exit(2)
	}
	if d := os.Getenv("VCGO_VERIF"); d != "" {
		verifDir = d
	}
	repo := "/repo"
	if d := os.Getenv("VCGO_REPO"); d != "" {
		repo = d
	}
	switch os.Args[1] {
	case "check":
		id := os.Args[2]
		tier := os.Getenv("VERIF_TIER")
		if tier == "" {
			tier = "quick"
		}
		for i := 3; i < len(os.Args); i++ {
			if os.Args[i] == "--tier" && i+1 < len(os.Args) {
				tier = os.Args[i+1]
			}
		}
		os.Exit(runCheck(repo, id, tier))
	case "dump":
		mode := "ieee"
		if len(os.Args) > 3 {
			mode = os.Args[3]
		}
		os.Exit(runDump(repo, os.Args[2], mode))
	case "list":
		eng, err := loadEngine(repo)
		if err != nil {
			fmt.Fprintln(os.Stderr, err)
			os.Exit(2)
		}
		var ks []string
		for k := range eng.fnByKey {
			ks = append(ks, k)
		}
		sort.Strings(ks)
		for _, k := range ks {
			fmt.Println(k)
		}
		for _, e := range eng.parseErrors {
			fmt.Println("PARSE ERROR:", e)
		}
	case "ssa":
		eng, err := loadEngine(repo)
		if err != nil {
			panic(err)
		}
		if len(os.Args) > 3 && os.Args[3] == "loops" {
			debugLoops(eng, os.Args[2])
		} else {
			debugFn(eng, os.Args[2])
		}
	case "names":
		os.Exit(runNames(repo))
	case "replay":
		os.Exit(runReplay(repo, os.Args[2]))
	default:
		fmt.Fprintln(os.Stderr, "unknown command")
		os.Exit(2)
	}
}

func runDump(repo, key, mode string) int {
	eng, err := loadEngine(repo)
	if err != nil {
		fmt.Fprintln(os.Stderr, err)
		return 2
	}
	for _, e := range eng.parseErrors {
		fmt.Println("PARSE ERROR:", e)
	}
	eng.tier = os.Getenv("VCGO_TIER")
	vc := newVC(eng, modeByName(mode))
	var rep *FuncReport
	if strings.Contains(key, ".lemma.") {
		parts := strings.SplitN(key, ".lemma.", 2)
		for _, lm := range eng.lemmas {
			if lm.Pkg.Pkg.Name() == parts[0] && lm.Name == parts[1] {
				vc = newVC(eng, modeByName(lm.Mode))
				rep = vc.proveLemma(lm)
			}
		}
		if rep == nil {
			fmt.Println("no such lemma")
			return 2
		}
	} else {
		fn := eng.fnByKey[key]
		if fn == nil {
			fmt.Println("no such function", key)
			return 2
		}
		rep = vc.verifyFunction(fn)
	}
	fmt.Printf("report: %+v\n", *rep)
	dir, _ := os.MkdirTemp("", "vcgo-dump")
	defer os.RemoveAll(dir)
	for _, o := range vc.obls {
		debugObl(o)
	}
	solveAll(vc.obls, dir, 12, 5, 60)
	for _, o := range vc.obls {
		fmt.Printf("%-8s %-14s %6.2fs %s %v\n", o.Result, o.Solver, o.Seconds, o.Name, o.Props)
		if pat := os.Getenv("VCGO_SAVE"); pat != "" && strings.Contains(o.Name, pat) && o.Result != "unsat" {
			saveN++
			os.WriteFile(fmt.Sprintf("/tmp/save_%d.smt2", saveN), []byte(o.smtText), 0o644)
			if o.smtFull != "" {
				os.WriteFile(fmt.Sprintf("/tmp/save_%d.full.smt2", saveN), []byte(o.smtFull), 0o644)
			}
		}
		if os.Getenv("VCGO_COVER_SMT") != "" && o.Cover && o.Result == "timeout" {
			os.WriteFile("/tmp/cover_"+sanitize(o.Name)+".smt2", []byte(o.smtText), 0o644)
		}
		if (o.Result != "unsat" && !o.Cover) || (o.Cover && o.Result == "unsat") {
			if os.Getenv("VCGO_SMT") != "" {
				fmt.Println(o.smtText)
			}
			if o.Model != "" {
				fmt.Println(firstLines(o.Model, 60))
			}
		}
	}
	return 0
}

type workItem struct {
	fn    *ssa.Function
	lemma *Lemma
	mode  string
}

type knownFinding struct {
	Property   string `json:"property"`
	Obligation string `json:"obligation"` // regexp on obligation name
	What       string `json:"what"`
	Status     string `json:"status"` // open | fixed
	Commit     string `json:"commit,omitempty"`
}

type knownFile struct {
	Findings []knownFinding `json:"findings"`
	Fixed    []string       `json:"fixed"`
}

func loadKnown() knownFile {
	var kf knownFile
	b, err := os.ReadFile(filepath.Join(verifDir, "known_findings.json"))
	if err == nil {
		json.Unmarshal(b, &kf)
	}
	return kf
}

type oblRecord struct {
	Name    string   `json:"name"`
	Kind    string   `json:"kind"`
	Mode    string   `json:"mode"`
	Result  string   `json:"result"`
	Solver  string   `json:"solver"`
	Seconds float64  `json:"seconds"`
	Props   []string `json:"props,omitempty"`
}

func runCheck(repo, id, tier string) int {
	start := time.Now()
	seed := int64(0)
	if s := os.Getenv("VERIF_SEED"); s != "" {
		seed, _ = strconv.ParseInt(s, 10, 64)
	}
	eng, err := loadEngine(repo)
	if err != nil {
		fmt.Fprintln(os.Stderr, "load error:", err)
		// the tree does not build with the tag on: report as machinery error
		return 2
	}
	eng.tier = tier
	replayDir := filepath.Join(verifDir, "replays", id)
	os.RemoveAll(replayDir)
	os.MkdirAll(replayDir, 0o755)

	// ---- select work ----------------------------------------------------------------
	var items []workItem
	seenItem := map[string]bool{}
	var keys []string
	for k := range eng.contracts {
		if !strings.Contains(k, "@") {
			keys = append(keys, k)
		}
	}
	sort.Strings(keys)
	var orphaned []string
	for _, k := range keys {
		fc := eng.contracts[k]
		modes := map[string]bool{}
		tagged := hasProp(fc.Props, id)
		addModes := func(c *Clause) {
			if c.Kind == "assumes" {
				return // assumed clauses give callers facts; they do not select the function for verification
			}
			if hasProp(c.Props, id) {
				tagged = true
				if len(c.Modes) == 0 {
					modes["ieee"] = true
				}
				for _, m := range c.Modes {
					modes[m] = true
				}
			}
		}
		for _, c := range fc.Clauses {
			addModes(c)
		}
		for _, lc := range fc.Loops {
			for _, c := range lc.Invariants {
				addModes(c)
			}
			for _, c := range lc.Steps {
				addModes(c)
			}
		}
		if !tagged {
			continue
		}
		if fc.Fn == nil {
			orphaned = append(orphaned, k)
			continue
		}
		if len(modes) == 0 {
			modes["ieee"] = true
		}
		for _, m := range sortedKeys(modes) {
			ik := k + "@" + m
			if !seenItem[ik] {
				seenItem[ik] = true
				items = append(items, workItem{fn: fc.Fn, mode: m})
			}
		}
	}
	// package invariants tagged with the property: verify the package init
	for _, inv := range eng.invs {
		if hasProp(inv.Props, id) {
			if f := inv.Pkg.Func("init"); f != nil {
				modes := inv.Modes
				if len(modes) == 0 {
					modes = []string{"ieee"}
				}
				for _, m := range modes {
					ik := inv.Pkg.Pkg.Name() + ".init@" + m
					if !seenItem[ik] {
						seenItem[ik] = true
						items = append(items, workItem{fn: f, mode: m})
					}
				}
			}
		}
	}
	for _, lm := range eng.lemmas {
		if hasProp(lm.Props, id) && (lm.Tier == "quick" || tier == "thorough") {
			items = append(items, workItem{lemma: lm, mode: lm.Mode})
		}
	}

	// ---- generate obligations -----------------------------------------------------------
	var obls, trivial []*Obligation
	var reports []*FuncReport
	assumptions := map[string]bool{}
	funcsUnder := map[string]bool{}
	vcs := map[string]*VC{}
	for _, it := range items {
		vc := vcs[it.mode]
		if vc == nil {
			vc = newVC(eng, modeByName(it.mode))
			vcs[it.mode] = vc
		}
		vc.obls, vc.trivial, vc.notes = nil, nil, nil
		t0 := time.Now()
		if os.Getenv("VCGO_PROGRESS") != "" {
			if it.lemma != nil {
				fmt.Fprintf(os.Stderr, "start lemma %s\n", it.lemma.Name)
			} else {
				fmt.Fprintf(os.Stderr, "start %s [%s]\n", it.fn.String(), it.mode)
			}
		}
		var rep *FuncReport
		if it.lemma != nil {
			rep = vc.proveLemma(it.lemma)
		} else {
			rep = vc.verifyFunction(it.fn)
		}
		if os.Getenv("VCGO_PROGRESS") != "" {
			fmt.Fprintf(os.Stderr, "generated %s [%s] in %.1fs: %d obligations, %d steps\n", rep.Key, it.mode, time.Since(t0).Seconds(), len(vc.obls), vc.steps)
		}
		rep.vc = vc
		reports = append(reports, rep)
		funcsUnder[rep.Key] = true
		for a := range vc.usedAssumptions {
			assumptions[a] = true
		}
		for _, o := range vc.obls {
			if hasProp(o.Props, id) {
				obls = append(obls, o)
			}
		}
		for _, o := range vc.trivial {
			if hasProp(o.Props, id) {
				trivial = append(trivial, o)
			}
		}
	}

	// ---- discharge --------------------------------------------------------------------------
	work, _ := os.MkdirTemp("", "vcgo-"+id+"-")
	defer os.RemoveAll(work)
	quickSec, fullSec := 4, 150
	if tier == "thorough" {
		quickSec, fullSec = 10, 600
	}
	// bounded stand-ins and structural checks run concurrently with the solvers
	extraCh := make(chan []extraResult, 1)
	go func() { extraCh <- runExtras(eng, id, tier, seed, work) }()
	solveAll(obls, work, 12, quickSec, fullSec)
	extra := <-extraCh

	// ---- verdicts -----------------------------------------------------------------------------------
	known := loadKnown()
	violations := 0
	var lines []string
	nObl, nDis := 0, 0
	var records []oblRecord
	var samples []interface{}
	solverTime := 0.0
	bySolver := map[string]int{}
	reported := map[string]bool{}
	var curReplay *replayResult
	var knownHits []string // obligations that failed and are listed as known findings: reported, not counted
	replayDeadline = time.Now().Add(150 * time.Second)
	if tier == "thorough" {
		replayDeadline = time.Now().Add(600 * time.Second)
	}
	replayAttempts := 0
	replayPerFunc := map[string]int{}
	funcReplay := map[string]*replayResult{}
	fail := func(name, reason, detail, smt string, hasModel bool) {
		if reported[name] {
			return
		}
		reported[name] = true
		for _, k := range known.Findings {
			if k.Property == id && k.Status != "fixed" {
				if ok, _ := regexp.MatchString(k.Obligation, name); ok {
					lines = append(lines, fmt.Sprintf("KNOWN-FINDING: property=%s %s (%s)", id, k.What, name))
					knownHits = append(knownHits, name)
					return
				}
			}
		}
		violations++
		fname := sanitize(name)
		if len(fname) > 120 {
			fname = fname[:120]
		}
		p := filepath.Join(replayDir, fname+".json")
		rec := map[string]interface{}{"property": id, "obligation": name, "reason": reason, "solver_output": detail, "tier": tier}
		if smt != "" {
			sp := filepath.Join(replayDir, fname+".smt2")
			os.WriteFile(sp, []byte(smt), 0o644)
			rec["smt_file"] = sp
		}
		if curReplay != nil && curReplay.source != "" {
			rec["replay"] = map[string]interface{}{"confirmed": curReplay.confirmed, "package_dir": curReplay.pkgDir, "inputs": curReplay.inputs,
				"test_source": curReplay.source, "obligation_kind": curReplay.kind, "note": curReplay.note, "rerun": "vcgo replay " + p}
		}
		b, _ := json.MarshalIndent(rec, "", " ")
		os.WriteFile(p, b, 0o644)
		suffix := " no-failing-input-found"
		if hasModel {
			suffix = ""
		}
		lines = append(lines, fmt.Sprintf("VIOLATION property=%s replay=%s obligation=%s%s", id, p, name, suffix))
	}
	for _, rep := range reports {
		if rep.Error != "" {
			nObl++
			// no obligations, hence no model; the contract can still be tested against the real code
			detail := rep.Error
			confirmed := false
			if rep.vc != nil && rep.vc.entries[rep.Key] != nil && replayAttempts < 14 {
				replayAttempts++
				rr := tryReplay(eng, &Obligation{Name: rep.Key + "#generate", Func: rep.Key, Kind: "generate", vc: rep.vc}, replayDir)
				rr.kind = "generate"
				curReplay = &rr
				confirmed = rr.confirmed
				if rr.text != "" {
					detail += "\nreplay: " + rr.text
				}
			}
			fail(rep.Key+"#generate", "obligation generation failed (code left the verified subset or contract no longer matches)", detail, "", confirmed)
			curReplay = nil
		}
	}
	for _, k := range orphaned {
		nObl++
		fail(k+"#orphaned", "contract refers to a function that no longer exists", "", "", false)
	}
	for _, e := range eng.parseErrors {
		if strings.Contains(e, "orphaned") {
			continue
		}
		nObl++
		fail("contracts#parse", "contract file error", e, "", false)
	}
	seenTrivial := map[string]bool{}
	for _, o := range trivial {
		if seenTrivial[o.Name] {
			continue
		}
		seenTrivial[o.Name] = true
		nObl++
		nDis++
		bySolver[o.Solver]++
		records = append(records, oblRecord{o.Name, o.Kind, o.Mode, "unsat", o.Solver, 0, o.Props})
	}
	// replay pass: failed obligations with a model first, postconditions and lemmas before
	// intermediate assertions; at most 12 attempts per run and 2 per function, within the budget
	replayOf := map[*Obligation]*replayResult{}
	{
		var cands []*Obligation
		for _, o := range obls {
			if !o.Cover && o.Result != "unsat" {
				cands = append(cands, o)
			}
		}
		rank := func(o *Obligation) int {
			r := 0
			if o.Result != "sat" {
				r += 4
			}
			if o.Kind != "post" && o.Kind != "lemma" {
				r += 2
			}
			return r
		}
		sort.SliceStable(cands, func(i, j int) bool { return rank(cands[i]) < rank(cands[j]) })
		for _, o := range cands {
			base := o.Label
			if i := strings.Index(base, "."); i >= 0 {
				base = base[:i]
			}
			if prev := funcReplay[o.Func]; prev != nil && o.Kind == "post" && prev.failedClause[base] {
				continue
			}
			if replayAttempts >= 12 || replayPerFunc[o.Func] >= 2 {
				continue
			}
			replayAttempts++
			replayPerFunc[o.Func]++
			rr := tryReplay(eng, o, replayDir)
			rr.kind = o.Kind
			replayOf[o] = &rr
			if rr.confirmed && funcReplay[o.Func] == nil {
				funcReplay[o.Func] = &rr
			}
		}
	}
	coverByFunc := map[string][]string{}
	for _, o := range obls {
		solverTime += o.Seconds
		if o.Cover {
			coverByFunc[o.Func] = append(coverByFunc[o.Func], o.Result)
			continue
		}
		nObl++
		records = append(records, oblRecord{o.Name, o.Kind, o.Mode, o.Result, o.Solver, o.Seconds, o.Props})
		if o.Result == "unsat" {
			nDis++
			bySolver[o.Solver]++
			if len(samples) < 4 && o.Kind != "bounds" {
				samples = append(samples, map[string]string{"obligation": o.Name, "mode": o.Mode, "goal": truncate(o.Goal.E, 400), "solver": o.Solver})
			}
			continue
		}
		hasModel := false
		detail := o.Output
		if o.Result == "sat" {
			detail += "\n" + firstLines(o.Model, 80)
		}
		// replay: at most 10 attempts per run and 2 per function; a confirmed replay of a function
		// also stands for its other failing clauses that the same run showed false
		base := o.Label
		if i := strings.Index(base, "."); i >= 0 {
			base = base[:i]
		}
		if rr := replayOf[o]; rr != nil {
			curReplay = rr
			if rr.confirmed {
				hasModel = true
				detail += "\nREPLAY on real code: " + rr.text
			} else if rr.text != "" {
				detail += "\nreplay: " + rr.text
			}
		} else if prev := funcReplay[o.Func]; prev != nil && o.Kind == "post" && prev.failedClause[base] {
			curReplay = prev
			hasModel = true
			detail += "\nREPLAY on real code (same run as for another clause of this function): " + prev.text
		}
		fail(o.Name, "obligation not discharged: "+o.Result, detail, o.smtText, hasModel)
		curReplay = nil
	}
	// vacuity: a function whose every cover query is unsat has contradictory assumptions
	for f, rs := range coverByFunc {
		all := true
		for _, r := range rs {
			if r != "unsat" {
				all = false
			}
		}
		if all {
			nObl++
			fail(f+"#vacuity", "all cover queries unsat: preconditions/assumed contracts are contradictory", strings.Join(rs, ","), "", false)
		}
	}
	for _, x := range extra {
		nObl += x.Obligations
		nDis += x.Discharged
		if x.Backend != "" && x.Discharged > 0 {
			bySolver[x.Backend] += x.Discharged
		}
		for _, f := range x.Failures {
			fail(f.Name, f.Reason, f.Detail, "", f.Witness)
		}
	}
	if nObl == 0 {
		violations++
		lines = append(lines, fmt.Sprintf("VIOLATION property=%s replay=%s obligation=none no-failing-input-found", id, filepath.Join(replayDir, "vacuous.json")))
		os.WriteFile(filepath.Join(replayDir, "vacuous.json"), []byte(`{"reason":"no obligations generated"}`), 0o644)
	}

	// ---- evidence -------------------------------------------------------------------------------------------
	wall := time.Since(start).Seconds()
	level := "proof"
	if id == "C11" {
		level = "other"
	}
	var trusted []string
	for a := range assumptions {
		trusted = append(trusted, a+": "+assumptionText[a])
	}
	trusted = append(trusted, "A-SSA: go/ssa (x/tools v0.29.0) and vcgo's SSA-to-SMT rules", "A-SMT: unsat answers of z3 4.8.12 / z3 5.1.0 / cvc5 1.0")
	sort.Strings(trusted)
	var bounded []interface{}
	var assumedList []string
	for _, x := range extra {
		if x.Bounded != nil {
			bounded = append(bounded, x.Bounded)
		}
		assumedList = append(assumedList, x.Assumed...)
		for _, s := range x.Samples {
			if len(samples) < 8 {
				samples = append(samples, s)
			}
		}
	}
	if len(samples) == 0 {
		samples = append(samples, map[string]string{"note": "no discharged obligation to sample"})
	}
	cov := map[string]interface{}{
		"obligations": nObl - len(knownHits), "discharged": nDis, "known_findings_reported": knownHits,
		"checker_cmd":  fmt.Sprintf("./vcgo/vcgo check %s --tier %s", id, tier),
		"trusted_base": trusted,
		"functions_under_contract": sortedKeys(funcsUnder),
		"obligation_records": records, "samples": samples,
		"solver_seconds_total": solverTime, "discharged_by_solver": bySolver,
		"bounded": bounded, "contract_files": eng.contractFiles,
		"explanation": explanationFor(id),
		"generation_reports": reports,
	}
	ev := map[string]interface{}{
		"property_id": id, "tier": tier, "seed": seed, "level": level,
		"coverage": cov, "assumptions": append(trusted, assumedList...), "wall_s": wall, "violations": violations,
	}
	os.MkdirAll(filepath.Join(verifDir, "evidence"), 0o755)
	b, _ := json.MarshalIndent(ev, "", " ")
	os.WriteFile(filepath.Join(verifDir, "evidence", id+".json"), b, 0o644)

	fmt.Printf("vcgo check %s tier=%s: %d obligations, %d discharged, %d violations, %.1fs (solver %.1fs)\n", id, tier, nObl-len(knownHits), nDis, violations, wall, solverTime)
	for _, rep := range reports {
		if rep.Error != "" {
			fmt.Printf("  generation error in %s [%s]: %s\n", rep.Key, rep.Mode, rep.Error)
		}
	}
	for _, l := range lines {
		fmt.Println(l)
	}
	if violations > 0 {
		return 1
	}
	// keep the replay dir only when something was reported
	if len(lines) == 0 {
		os.RemoveAll(replayDir)
	}
	return 0
}

func truncate(s string, n int) string {
	if len(s) <= n {
		return s
	}
	return s[:n] + "..."
}

var assumptionText = map[string]string{
	"A-IEEE":    "Go float32/float64 are IEEE binary32/64, round-to-nearest-even, no FMA contraction on amd64",
	"A-CONV":    "float->integer conversion follows the amd64 CVTT* code the gc compiler emits (Go spec: implementation-defined out of range)",
	"A-RND":     "IEEE rounding is monotone and exact on representable values (rnd model)",
	"A-REAL":    "in real-mode clauses machine arithmetic is treated as mathematical",
	"A-MATHINT": "64-bit integer arithmetic treated as mathematical in math-int modes",
	"A-POW":     "math.Pow is a deterministic pure function; Pow(x,3)=x*x*x in real mode",
	"A-IO":      "documented contracts of io.Reader/ByteReader (short reads, final data together with the end-of-data error), bufio.Reader, bytes.Reader, io.ReadFull (EOF vs ErrUnexpectedEOF), io.CopyN, io.TeeReader, io.MultiReader, bytes.Buffer",
	"A-STD":     "fmt.Errorf/errors.New return non-nil; fmt.Sprintf, time.Date, utf16.Decode, bytes.Equal/HasPrefix are pure functions of their arguments; log.Print*/fmt.Print* have no effect on the verified state; range over a map visits present keys and terminates",
	"A-ZLIB":    "zlib.NewReader/io.Copy inflate exactly the bytes handed to them or report an error",
	"A-IMG":     "representation invariants of image.* types (every row of Rect lies within Pix, distinct pixels have disjoint footprints); image.NewX(r) returns a fresh zeroed image with Rect == r; draw.Draw and an arbitrary draw.Image's Set per their documentation; color.Color.RGBA returns alpha-premultiplied 16-bit channels",
	"A-DET":     "assumed contract clauses (kind `assumes`): each extractMetadata result is a deterministic function of the bytes of its input",
	"A-STDSRC":  "integer-only standard library functions (image.*.PixOffset, At/Set accessors, color conversions) are executed symbolically from the installed standard library's source",
	"A-FRAME":   "a function called through its contract may change scalar contents of the objects reachable from its arguments but does not reassign their pointer/interface-valued fields",
	"A-APPEND":  "the result of append is a fresh backing array holding the old elements followed by the new ones; sharing of spare capacity with the argument slice is not modelled",
	"A-PAR":     "sync.Once.Do as documented; parallel.RunWorkers(n, f) runs f(0,n')...f(n'-1,n') once each for some 1 <= n' <= 65536 and returns after all have",
}

func explanationFor(id string) string {
	return "contract-based deductive verification: obligations generated from /repo's current SSA by vcgo (weakest-precondition style symbolic execution against contracts in */contracts_verif.go) and discharged by an SMT portfolio; see DESIGN.md"
}
