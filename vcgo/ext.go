package main

// Assumed contracts of external (standard library / dependency) functions. Every handler
// here is part of the trusted base and is reported in the evidence by assumption id.

import (
	"fmt"
	"math/big"
	"go/token"
	"go/types"
	"strings"

	"golang.org/x/tools/go/ssa"
)

type extHandler func(vc *VC, fr *Frame, st *State, args []Val, pos token.Pos) []Outcome

var extHandlers map[string]extHandler

func init() {
	extHandlers = map[string]extHandler{
		"math.Pow":                    extPow,
		"fmt.Errorf":                  extNewError,
		"errors.New":                  extNewError,
		"errors.Is":                   extErrorsIs,
		"fmt.Sprintf":                 extSprintf,
		"time.Date":                   extTimeDate,
		"(*sync.Once).Do":             extOnceDo,
		"io.ReadFull":                 extReadFull,
		"bytes.NewReader":             extBytesNewReader,
		"(*bytes.Reader).ReadByte":    extStreamReadByte,
		"(*bytes.Reader).Read":        extStreamRead,
		"(*bytes.Reader).Len":         extReaderLen,
		"(*bufio.Reader).ReadByte":    extStreamReadByte,
		"(*bufio.Reader).Read":        extStreamRead,
		"(*strings.Builder).WriteByte": extBuilderWriteByte,
		"(*strings.Builder).Len":      extBuilderLen,
		"unicode/utf16.Decode":        extUTF16Decode,
		"compress/zlib.NewReader":     extZlibNewReader,
		"io.Copy":                     extIoCopy,
		"io.CopyN":                    extIoCopyN,
		"(*bytes.Buffer).Bytes":       extBufferBytes,
		"(*bytes.Buffer).Write":       extBufferWrite,
	}
	for _, f := range extHandlersLate {
		f()
	}
}

func one(st *State, rets ...Val) []Outcome { return []Outcome{{St: st, Ret: rets}} }

func (vc *VC) powApp(a, b Term) Term {
	vc.assume("A-POW")
	s := vc.floatSort(64)
	if vc.mode.FloatReal {
		// exact integer exponent 3: x*x*x (documented part of A-POW)
		if b.R != nil && b.R.IsInt() && b.R.Num().Int64() == 3 {
			return NumMul(NumMul(a, a), a)
		}
		if b.R != nil {
			third := big.NewRat(1, 3)
			d := new(big.Rat).Sub(b.R, third)
			if d.Abs(d).Cmp(big.NewRat(1, 1000000000000000)) < 0 && vc.noDefine == 0 {
				// A-POW: Pow(x, 1/3) is the real cube root (for x > 0: c > 0 and c*c*c = x).
				// Instantiated per application so the query stays polynomial.
				key := "cbrt|" + a.E
				if vc.divCache == nil {
					vc.divCache = map[string]Term{}
				}
				if c, ok := vc.divCache[key]; ok {
					return c
				}
				c := vc.freshTerm("cbrt", SReal)
				vc.decl(fmt.Sprintf("(assert (=> (> %s 0.0) (and (> %s 0.0) (= (* %s %s %s) %s)))) ;anchor=%s", a.E, c.E, c.E, c.E, c.E, a.E, c.E))
				vc.divCache[key] = c
				return c
			}
			return vc.ufApp("pow_"+sanitize(b.R.RatString()), s, a)
		}
	}
	return vc.ufApp("math.Pow", s, a, b)
}

func extPow(vc *VC, fr *Frame, st *State, args []Val, pos token.Pos) []Outcome {
	return one(st, vc.powApp(args[0].(Term), args[1].(Term)))
}

func (vc *VC) newError(st *State, tag string) Term {
	t := vc.freshTerm("err_"+tag, SErr)
	t.NonNil = true
	st.Fact(Not(Eq(t, Term{S: SErr, E: "err_nil"})))
	vc.assume("A-STD")
	return t
}

func extNewError(vc *VC, fr *Frame, st *State, args []Val, pos token.Pos) []Outcome {
	return one(st, vc.newError(st, "new"))
}

func extErrorsIs(vc *VC, fr *Frame, st *State, args []Val, pos token.Pos) []Outcome {
	a, b := args[0].(Term), args[1].(Term)
	vc.assume("A-STD")
	r := vc.ufApp("errors.Is", SBool, a, b)
	// errors.Is(x, x) is true; errors.Is(nil, non-nil) is false
	st.Assume(Implies(Eq(a, b), r))
	st.Assume(Implies(And(Eq(a, Term{S: SErr, E: "err_nil"}), Not(Eq(b, Term{S: SErr, E: "err_nil"}))), Not(r)))
	return one(st, r)
}

func (vc *VC) sprintfApp(format string, ts []Term) Term {
	vc.assume("A-STD")
	name := "Sprintf_" + sanitize(format)
	for i, t := range ts {
		// integer arguments are compared by value, independent of their width
		if t.S.K == KBV && t.S.N < 64 {
			ts[i] = ZeroExt(t, 64)
		}
	}
	return vc.ufApp(name, SStr, ts...)
}

func extSprintf(vc *VC, fr *Frame, st *State, args []Val, pos token.Pos) []Outcome {
	f, ok := args[0].(Term)
	var format string
	found := false
	if ok {
		for s, t := range vc.strLits {
			if t.E == f.E {
				format, found = s, true
			}
		}
	}
	if !found {
		return one(st, vc.freshTerm("sprintf", SStr))
	}
	var ts []Term
	if len(args) > 1 {
		sl := args[1].(SliceVal)
		if sl.Base.Cell != nil {
			if av, ok := st.mem[sl.Base.Cell].(ArrVal); ok {
				for _, e := range av.E {
					iv, ok := e.(IfaceVal)
					if !ok {
						return one(st, vc.freshTerm("sprintf", SStr))
					}
					t, ok := iv.V.(Term)
					if !ok {
						return one(st, vc.freshTerm("sprintf", SStr))
					}
					if iv.Dyn != nil && isSigned(iv.Dyn) && t.S.K == KBV && t.S.N < 64 {
						t = SignExt(t, 64)
					}
					ts = append(ts, t)
				}
			}
		}
	}
	return one(st, vc.sprintfApp(format, ts))
}

func extTimeDate(vc *VC, fr *Frame, st *State, args []Val, pos token.Pos) []Outcome {
	vc.assume("A-STD")
	var ts []Term
	for _, a := range args[:7] {
		ts = append(ts, a.(Term))
	}
	// location argument is ignored (always time.UTC in prism; checked by the caller's contract)
	return one(st, vc.ufApp("time.Date", OpaqueSort("T_time.Time"), ts[:6]...))
}

// sync.Once.Do: if not yet done, run f now and mark done; otherwise f ran earlier
// (its effects are summarised by the package invariants tied to once.done).
func extOnceDo(vc *VC, fr *Frame, st *State, args []Val, pos token.Pos) []Outcome {
	vc.assume("A-PAR")
	p := args[0].(PtrVal)
	oo, ok := vc.load(st, p).(OnceObj)
	if !ok {
		panic(execError{"Once.Do on a non-Once object"})
	}
	f := args[1].(FuncVal)
	var res []Outcome
	if !oo.Done.IsTrue() {
		s1 := st.Clone()
		s1.Assume(Not(oo.Done))
		if !s1.Infeasible() {
			outs := vc.callFunction(f.Fn, nil, f.Bind, s1, fr)
			for _, o := range outs {
				if !o.Panic {
					vc.store(o.St, p, OnceObj{Done: TTrue()})
				}
				res = append(res, Outcome{St: o.St, Panic: o.Panic})
			}
		}
	}
	if !oo.Done.IsFalse() {
		s2 := st
		s2.Assume(oo.Done)
		res = append(res, Outcome{St: s2})
	}
	return res
}

// ---- ghost byte streams ---------------------------------------------------------------

var ghostReaderType types.Type

func (vc *VC) newStream(st *State, name string, exact bool) (PtrVal, Stream) {
	is := vc.intSort(64)
	var bs Sort
	if vc.mode.IntMath {
		bs = SInt
	} else {
		bs = BV(8)
	}
	s := Stream{Name: name, Exact: exact}
	s.Data = vc.freshTerm(name+".data", ArrSort(is, bs))
	s.Base = vc.idx(0)
	s.Len = vc.freshTerm(name+".len", is)
	s.Len.Signed = true
	s.Pos = vc.idx(0)
	st.Assume(vc.iLe(vc.idx(0), s.Len, true))
	st.Assume(vc.iLe(s.Len, vc.idxBig(maxLenBound), true))
	s.EOFErr = vc.newError(st, name+"_eof")
	c := vc.newCell(name, "ext", nil)
	st.mem[c] = s
	vc.assume("A-IO")
	return PtrVal{Cell: c}, s
}

func (vc *VC) freshIface(T types.Type, name string, st *State) Val {
	it := T.Underlying().(*types.Interface)
	has := func(m string) bool {
		for i := 0; i < it.NumMethods(); i++ {
			if it.Method(i).Name() == m {
				return true
			}
		}
		return false
	}
	if has("ReadByte") || (has("Read") && it.NumMethods() == 1) {
		p, _ := vc.newStream(st, name, false)
		return IfaceVal{Dyn: streamDynType(), V: p}
	}
	if isErrorType(T) {
		return vc.freshTerm(name, SErr)
	}
	vc.declareSort("Iface")
	si := SymIface{T: vc.freshTerm(name, OpaqueSort("Iface")), Type: T}
	if hasSetMethod(T) && !vc.mode.IntMath {
		vc.ghostImgCell(st, si, true)
	}
	return si
}

var streamDyn types.Type

func streamDynType() types.Type {
	if streamDyn == nil {
		tn := types.NewTypeName(token.NoPos, nil, "ghostStream", nil)
		streamDyn = types.NewPointer(types.NewNamed(tn, types.NewStruct(nil, nil), nil))
	}
	return streamDyn
}

func (vc *VC) getStream(st *State, v Val) (PtrVal, Stream) {
	if iv, ok := v.(IfaceVal); ok {
		v = iv.V
	}
	p, ok := v.(PtrVal)
	if !ok || p.Cell == nil {
		panic(execError{fmt.Sprintf("not a stream: %T", v)})
	}
	s, ok := st.mem[p.Cell].(Stream)
	if !ok {
		panic(execError{"not a stream object: " + p.Cell.Name})
	}
	return p, s
}

func (vc *VC) streamByte(s Stream, i Term) Term {
	b := Select(s.Data, vc.iAdd(s.Base, i))
	return b
}

func (vc *VC) byteVal(t Term) Term {
	// stream bytes are BV8 (or Int in [0,255] in math mode)
	return t
}

func extStreamReadByte(vc *VC, fr *Frame, st *State, args []Val, pos token.Pos) []Outcome {
	return vc.streamReadByte(st, args[0])
}

func (vc *VC) streamReadByte(st *State, recv Val) []Outcome {
	p, s := vc.getStream(st, recv)
	avail := vc.iLt(s.Pos, s.Len, true)
	var res []Outcome
	// success
	s1 := st.Clone()
	s1.Assume(avail)
	if !s1.Infeasible() {
		b := vc.streamByte(s, s.Pos)
		if vc.mode.IntMath {
			s1.Assume(And(NumCmp("<=", IntConst(bigZero), b), NumCmp("<=", b, IntConst(big255))))
		}
		n := s
		n.Pos = vc.iAdd(s.Pos, vc.idx(1))
		s1.mem[p.Cell] = n
		s1.extWrites++
		if vc.writeLog != nil {
			vc.writeLog[p.Cell] = true
		}
		res = append(res, Outcome{St: s1, Ret: []Val{b, Term{S: SErr, E: "err_nil"}}})
	}
	// end of data
	s2 := st
	s2.Assume(Not(avail))
	if !s2.Infeasible() {
		var zero Term
		if vc.mode.IntMath {
			zero = IntConst(bigZero)
		} else {
			zero = BVConstI(0, 8, false)
		}
		res = append(res, Outcome{St: s2, Ret: []Val{zero, s.EOFErr}})
	}
	return res
}

func extStreamRead(vc *VC, fr *Frame, st *State, args []Val, pos token.Pos) []Outcome {
	return vc.streamRead(st, args[0], args[1].(SliceVal))
}

// Read(p): any n with 1 <= n <= min(len(p), remaining) when data is available (a
// bytes.Reader always delivers the minimum itself); (remaining, err) when the rest fits into p
// (final data together with the end-of-data error); (0, err) at end of data.
func (vc *VC) streamRead(st *State, recv Val, buf SliceVal) []Outcome {
	p, s := vc.getStream(st, recv)
	var res []Outcome
	zero := vc.idx(0)
	// len(p) == 0
	s0 := st.Clone()
	s0.Assume(Eq(buf.Len, zero))
	if !s0.Infeasible() {
		res = append(res, Outcome{St: s0, Ret: []Val{zero, Term{S: SErr, E: "err_nil"}}})
	}
	avail := vc.iLt(s.Pos, s.Len, true)
	s1 := st.Clone()
	s1.Assume(Not(Eq(buf.Len, zero)))
	s1.Assume(avail)
	if !s1.Infeasible() && buf.Base.Cell != nil {
		rem := vc.iSub(s.Len, s.Pos)
		n := vc.freshTerm("nread", vc.intSort(64))
		n.Signed = true
		minv := Ite(vc.iLe(buf.Len, rem, true), buf.Len, rem)
		if s.Exact {
			s1.Assume(Eq(n, minv))
		} else {
			s1.Assume(vc.iLe(vc.idx(1), n, true))
			s1.Assume(vc.iLe(n, minv, true))
		}
		vc.copyIntoSlice(s1, buf, s, s.Pos, n)
		ns := s
		ns.Pos = vc.iAdd(s.Pos, n)
		s1.mem[p.Cell] = ns
		s1.extWrites++
		if vc.writeLog != nil {
			vc.writeLog[p.Cell] = true
		}
		res = append(res, Outcome{St: s1, Ret: []Val{n, Term{S: SErr, E: "err_nil"}}})
	}
	// the final bytes together with the end-of-data error in one call (io.Reader permits it;
	// bytes.Reader never does it)
	if !s.Exact && buf.Base.Cell != nil {
		s3 := st.Clone()
		s3.Assume(Not(Eq(buf.Len, zero)))
		s3.Assume(avail)
		rem := vc.iSub(s.Len, s.Pos)
		s3.Assume(vc.iLe(rem, buf.Len, true))
		if !s3.Infeasible() {
			vc.copyIntoSlice(s3, buf, s, s.Pos, rem)
			ns := s
			ns.Pos = s.Len
			s3.mem[p.Cell] = ns
			s3.extWrites++
			if vc.writeLog != nil {
				vc.writeLog[p.Cell] = true
			}
			res = append(res, Outcome{St: s3, Ret: []Val{rem, s.EOFErr}})
		}
	}
	s2 := st
	s2.Assume(Not(Eq(buf.Len, zero)))
	s2.Assume(Not(avail))
	if !s2.Infeasible() {
		res = append(res, Outcome{St: s2, Ret: []Val{zero, s.EOFErr}})
	}
	return res
}

// copyIntoSlice writes stream bytes [from, from+n) into buf[0:n]; the rest of buf is unchanged.
func (vc *VC) copyIntoSlice(st *State, buf SliceVal, s Stream, from Term, n Term) {
	arrV := vc.load(st, buf.Base)
	switch a := arrV.(type) {
	case ArrVal:
		ne := make([]Val, len(a.E))
		for k := range a.E {
			kk := vc.idx(int64(k))
			rel := vc.iSub(kk, buf.Off) // index within the slice
			inside := And(vc.iLe(vc.idx(0), rel, true), vc.iLt(rel, n, true))
			ne[k] = vc.iteVal(inside, vc.streamByte(s, vc.iAdd(from, rel)), a.E[k])
		}
		vc.store(st, buf.Base, ArrVal{E: ne})
	case Term:
		na := vc.freshTerm("buf", a.S)
		is := vc.intSort(64)
		vc.nfresh++
		q := Term{S: is, E: fmt.Sprintf("j!q%d", vc.nfresh), Signed: true}
		rel := vc.iSub(q, buf.Off)
		inside := And(vc.iLe(vc.idx(0), rel, true), vc.iLt(rel, n, true))
		body := Eq(Select(na, q), Ite(inside, vc.streamByte(s, vc.iAdd(from, rel)), Select(a, q)))
		st.Assume(Term{S: SBool, E: fmt.Sprintf("(forall ((%s %s)) %s)", q.E, is.String(), body.E)})
		vc.store(st, buf.Base, na)
	default:
		panic(execError{fmt.Sprintf("Read into %T", arrV)})
	}
}

// io.ReadFull(r, buf): exactly len(buf) bytes or an error (A-IO).
func extReadFull(vc *VC, fr *Frame, st *State, args []Val, pos token.Pos) []Outcome {
	p, s := vc.getStream(st, args[0])
	buf := args[1].(SliceVal)
	var res []Outcome
	rem := vc.iSub(s.Len, s.Pos)
	enough := vc.iLe(buf.Len, rem, true)
	s1 := st.Clone()
	s1.Assume(enough)
	if !s1.Infeasible() {
		if buf.Base.Cell != nil {
			vc.copyIntoSlice(s1, buf, s, s.Pos, buf.Len)
		} else {
			s1.Assume(Eq(buf.Len, vc.idx(0)))
		}
		ns := s
		ns.Pos = vc.iAdd(s.Pos, buf.Len)
		s1.mem[p.Cell] = ns
		s1.extWrites++
		if vc.writeLog != nil {
			vc.writeLog[p.Cell] = true
		}
		res = append(res, Outcome{St: s1, Ret: []Val{buf.Len, Term{S: SErr, E: "err_nil"}}})
	}
	s2 := st
	s2.Assume(Not(enough))
	if !s2.Infeasible() {
		// short: everything that was left is consumed, buffer contents unspecified. Per the documentation
		// of io.ReadFull the count is what was left; the error is the reader's own end-of-data error when
		// nothing was read, and io.ErrUnexpectedEOF when some bytes were read and that error is io.EOF.
		n := vc.define("nshort", rem)
		n.Signed = true
		if buf.Base.Cell != nil {
			old := vc.load(s2, buf.Base)
			vc.store(s2, buf.Base, vc.havocVal(old, nil, "shortbuf", s2))
		}
		ns := s
		ns.Pos = s.Len
		s2.mem[p.Cell] = ns
		s2.extWrites++
		if vc.writeLog != nil {
			vc.writeLog[p.Cell] = true
		}
		unexp := vc.ufApp("ext_io.ErrUnexpectedEOF", SErr)
		unexp.NonNil = true
		s2.Fact(Not(Eq(unexp, Term{S: SErr, E: "err_nil"})))
		s2.Fact(Not(Eq(unexp, Term{S: SErr, E: "io_EOF"})))
		rerr := Ite(Eq(rem, vc.idx(0)), s.EOFErr, Ite(Eq(s.EOFErr, Term{S: SErr, E: "io_EOF"}), unexp, s.EOFErr))
		rerr.NonNil = true
		res = append(res, Outcome{St: s2, Ret: []Val{n, rerr}})
	}
	return res
}

func extBytesNewReader(vc *VC, fr *Frame, st *State, args []Val, pos token.Pos) []Outcome {
	sl := args[0].(SliceVal)
	vc.assume("A-IO")
	s := Stream{Name: "bytesReader", Exact: true}
	if sl.Base.Cell == nil {
		is := vc.intSort(64)
		s.Data = vc.freshTerm("nildata", ArrSort(is, vc.byteSort()))
		s.Base, s.Len, s.Pos = vc.idx(0), vc.idx(0), vc.idx(0)
	} else {
		arr, ok := vc.load(st, sl.Base).(Term)
		if !ok {
			panic(execError{"bytes.NewReader over a small array"})
		}
		s.Data = arr
		s.Base = sl.Off
		s.Len = sl.Len
		s.Pos = vc.idx(0)
	}
	s.EOFErr = Term{S: SErr, E: "io_EOF", NonNil: true}
	c := vc.newCell("bytesReader", "ext", nil)
	st.mem[c] = s
	return one(st, PtrVal{Cell: c})
}

func (vc *VC) byteSort() Sort {
	if vc.mode.IntMath {
		return SInt
	}
	return BV(8)
}

// ---- strings.Builder (only the length is modelled) -----------------------------------

func (vc *VC) builderObj(st *State, p PtrVal) BuilderObj {
	v := vc.load(st, p)
	if b, ok := v.(BuilderObj); ok {
		return b
	}
	// zero value strings.Builder{}
	return BuilderObj{Len: vc.idx(0)}
}

func extBuilderWriteByte(vc *VC, fr *Frame, st *State, args []Val, pos token.Pos) []Outcome {
	vc.assume("A-STD")
	p := args[0].(PtrVal)
	b := vc.builderObj(st, p)
	vc.store(st, p, BuilderObj{Len: vc.iAdd(b.Len, vc.idx(1))})
	return one(st, Term{S: SErr, E: "err_nil"})
}

func extBuilderLen(vc *VC, fr *Frame, st *State, args []Val, pos token.Pos) []Outcome {
	p := args[0].(PtrVal)
	b := vc.builderObj(st, p)
	return one(st, b.Len)
}

func extUTF16Decode(vc *VC, fr *Frame, st *State, args []Val, pos token.Pos) []Outcome {
	vc.assume("A-STD")
	sl := args[0].(SliceVal)
	arr := vc.load(st, sl.Base).(Term)
	// result: opaque rune slice identified by (array, off, len)
	c := vc.newCell("runes", "heap", nil)
	is := vc.intSort(64)
	st.mem[c] = vc.ufApp("utf16_decode", ArrSort(is, vc.intSort(32)), arr, sl.Off, sl.Len)
	ln := vc.ufApp("utf16_decode_len", is, arr, sl.Off, sl.Len)
	ln.Signed = true
	st.Assume(vc.iLe(vc.idx(0), ln, true))
	st.Assume(vc.iLe(ln, sl.Len, true))
	return one(st, SliceVal{Base: PtrVal{Cell: c}, Off: vc.idx(0), Len: ln, Cap: ln, IsNil: TFalse()})
}

// ---- zlib / bytes.Buffer (PNG iCCP path) ---------------------------------------------

type ZlibObj struct {
	Src Stream
	Ok  Term
}

func extZlibNewReader(vc *VC, fr *Frame, st *State, args []Val, pos token.Pos) []Outcome {
	vc.assume("A-ZLIB")
	var s Stream
	if iv, ok := args[0].(IfaceVal); ok {
		if bp, ok := iv.V.(PtrVal); ok && bp.Cell != nil {
			if b, ok := vc.load(st, bp).(BufferObj); ok {
				s = Stream{Data: b.Content, Base: b.Base, Len: b.Len, Pos: vc.idx(0)}
			}
		}
	}
	if s.Data.E == "" {
		_, s = vc.getStream(st, args[0])
		// the compressed data is what remains of the stream
		s.Base = vc.iAdd(s.Base, s.Pos)
		s.Len = vc.iSub(s.Len, s.Pos)
	}
	hdrOK := vc.ufApp("zlib_header_ok", SBool, s.Data, s.Base, s.Len)
	var res []Outcome
	s1 := st.Clone()
	s1.Assume(hdrOK)
	c := vc.newCell("zlibReader", "ext", nil)
	s1.mem[c] = ZlibObj{Src: s}
	res = append(res, Outcome{St: s1, Ret: []Val{IfaceVal{Dyn: zlibDynType(), V: PtrVal{Cell: c}}, Term{S: SErr, E: "err_nil"}}})
	s2 := st
	s2.Assume(Not(hdrOK))
	res = append(res, Outcome{St: s2, Ret: []Val{IfaceVal{}, vc.newError(s2, "zlib")}})
	return res
}

var zlibDyn types.Type

func zlibDynType() types.Type {
	if zlibDyn == nil {
		tn := types.NewTypeName(token.NoPos, nil, "ghostZlib", nil)
		zlibDyn = types.NewPointer(types.NewNamed(tn, types.NewStruct(nil, nil), nil))
	}
	return zlibDyn
}

func extIoCopy(vc *VC, fr *Frame, st *State, args []Val, pos token.Pos) []Outcome {
	vc.assume("A-ZLIB")
	// only the pattern io.Copy(*bytes.Buffer, zlibReader) is modelled
	dst, ok := args[0].(IfaceVal)
	if !ok {
		panic(execError{"io.Copy destination"})
	}
	src, ok := args[1].(IfaceVal)
	if !ok {
		panic(execError{"io.Copy source"})
	}
	zp, ok := src.V.(PtrVal)
	if !ok {
		panic(execError{"io.Copy source is not the zlib reader"})
	}
	z, ok := st.mem[zp.Cell].(ZlibObj)
	if !ok {
		panic(execError{"io.Copy source is not the zlib reader"})
	}
	bp := dst.V.(PtrVal)
	is := vc.intSort(64)
	okc := vc.ufApp("zlib_body_ok", SBool, z.Src.Data, z.Src.Base, z.Src.Len)
	var res []Outcome
	s1 := st.Clone()
	s1.Assume(okc)
	out := vc.ufApp("zlib_inflate", ArrSort(is, vc.byteSort()), z.Src.Data, z.Src.Base, z.Src.Len)
	olen := vc.ufApp("zlib_inflate_len", is, z.Src.Data, z.Src.Base, z.Src.Len)
	olen.Signed = true
	s1.Assume(vc.iLe(vc.idx(0), olen, true))
	vc.store(s1, bp, BufferObj{Content: out, Base: vc.idx(0), Len: olen})
	res = append(res, Outcome{St: s1, Ret: []Val{olen, Term{S: SErr, E: "err_nil"}}})
	s2 := st
	s2.Assume(Not(okc))
	n := vc.freshTerm("ncopied", is)
	vc.store(s2, bp, BufferObj{Content: vc.freshTerm("partial", ArrSort(is, vc.byteSort())), Base: vc.idx(0), Len: n})
	res = append(res, Outcome{St: s2, Ret: []Val{n, vc.newError(s2, "inflate")}})
	return res
}

func (vc *VC) bufferObj(st *State, p PtrVal) BufferObj {
	v := vc.load(st, p)
	if b, ok := v.(BufferObj); ok {
		return b
	}
	is := vc.intSort(64)
	return BufferObj{Content: ConstArray(ArrSort(is, vc.byteSort()), vc.zeroByte()), Base: vc.idx(0), Len: vc.idx(0), Fresh: true}
}

func (vc *VC) zeroByte() Term {
	if vc.mode.IntMath {
		return IntConst(bigZero)
	}
	return BVConstI(0, 8, false)
}

func extBufferBytes(vc *VC, fr *Frame, st *State, args []Val, pos token.Pos) []Outcome {
	vc.assume("A-IO")
	p := args[0].(PtrVal)
	b := vc.bufferObj(st, p)
	c := vc.newCell("bufbytes", "heap", nil)
	st.mem[c] = b.Content
	// Bytes() of an empty never-written buffer is nil; otherwise non-nil
	// Bytes() of a never-written buffer is nil; after writes of zero total length it may be either
	isnil := Eq(b.Len, vc.idx(0))
	if !b.Fresh {
		isnil = And(Eq(b.Len, vc.idx(0)), vc.freshTerm("bufnil", SBool))
		if b.FreshT != nil {
			isnil = Or(*b.FreshT, isnil)
		}
	}
	return one(st, SliceVal{Base: PtrVal{Cell: c}, Off: b.Base, Len: b.Len, Cap: b.Len, IsNil: isnil})
}

func extBufferWrite(vc *VC, fr *Frame, st *State, args []Val, pos token.Pos) []Outcome {
	vc.assume("A-IO")
	p := args[0].(PtrVal)
	b := vc.bufferObj(st, p)
	sl := args[1].(SliceVal)
	is := vc.intSort(64)
	nc := vc.freshTerm("bufcontent", b.Content.S)
	// new content: old bytes then the written bytes
	vc.nfresh++
	q := Term{S: is, E: fmt.Sprintf("j!q%d", vc.nfresh), Signed: true}
	var src Term
	if sl.Base.Cell != nil {
		arr, ok := vc.load(st, sl.Base).(Term)
		if !ok {
			panic(execError{"Buffer.Write from small array"})
		}
		src = Select(arr, vc.iAdd(sl.Off, vc.iSub(q, b.Len)))
	} else {
		src = vc.zeroByte()
	}
	inNew := And(vc.iLe(b.Len, q, true), vc.iLt(q, vc.iAdd(b.Len, sl.Len), true))
	body := Eq(Select(nc, q), Ite(inNew, src, Select(b.Content, vc.iAdd(b.Base, q))))
	st.Fact(Term{S: SBool, E: fmt.Sprintf("(forall ((%s %s)) %s)", q.E, is.String(), body.E)})
	vc.store(st, p, BufferObj{Content: nc, Base: vc.idx(0), Len: vc.iAdd(b.Len, sl.Len)})
	return one(st, sl.Len, Term{S: SErr, E: "err_nil"})
}

// ---- interface method dispatch -----------------------------------------------------------

func (vc *VC) invokeMethod(fr *Frame, st *State, recv Val, m *types.Func, args []Val, pos token.Pos) []Outcome {
	name := m.Name()
	switch r := recv.(type) {
	case IfaceVal:
		if r.Dyn == nil {
			if ps := vc.safe(fr, st, TFalse(), "nil", pos); ps != nil {
				return vc.doPanicOutcome(ps)
			}
			st.Assume(TFalse())
			return nil
		}
		if r.Dyn == streamDynType() {
			switch name {
			case "ReadByte":
				return vc.streamReadByte(st, r)
			case "Read":
				return vc.streamRead(st, r, args[0].(SliceVal))
			}
			panic(execError{"unsupported stream method " + name})
		}
		if r.Dyn == zlibDynType() {
			if name == "Close" {
				return one(st, vc.freshTerm("closeerr", SErr))
			}
			panic(execError{"unsupported zlib method " + name})
		}
		// concrete dynamic type: resolve the method
		ms := vc.eng.prog.MethodSets.MethodSet(r.Dyn)
		sel := ms.Lookup(m.Pkg(), name)
		if sel == nil {
			panic(execError{fmt.Sprintf("method %s not found on %v", name, r.Dyn)})
		}
		fn := vc.eng.prog.MethodValue(sel)
		if fn == nil {
			panic(execError{"no SSA for method " + name})
		}
		full := append([]Val{r.V}, args...)
		return vc.callStatic(fr, st, fn, full, nil, pos)
	case SymIface:
		return vc.symIfaceMethod(fr, st, r, m, args, pos)
	case Term:
		if r.S.Eq(SErr) && name == "Error" {
			return one(st, vc.ufApp("err_string", SStr, r))
		}
	}
	panic(execError{fmt.Sprintf("invoke %s on %T", name, recv)})
}

func (vc *VC) doPanicOutcome(ps *State) []Outcome {
	return []Outcome{{St: ps, Panic: true}}
}

// symIfaceMethod: methods of a symbolic interface value are pure uninterpreted functions
// of the value's identity and arguments.
func (vc *VC) symIfaceMethod(fr *Frame, st *State, r SymIface, m *types.Func, args []Val, pos token.Pos) []Outcome {
	if m.Name() == "Set" && len(args) == 3 && hasSetMethod(r.Type) {
		vc.assume("A-IMG")
		vc.ghostSet(st, r, args)
		return one(st)
	}
	sig := m.Type().(*types.Signature)
	full := m.FullName()
	rets := vc.symMethodResults(st, r, full, sig, args)
	return one(st, rets...)
}

// symMethodResults: methods of a symbolic interface value are deterministic (pure): the
// results are constants cached per (receiver identity, method, arguments).
func (vc *VC) symMethodResults(st *State, r SymIface, full string, sig *types.Signature, args []Val) []Val {
	key := "symiface|" + full + "|" + r.T.E
	targs := []Term{r.T}
	for _, a := range args {
		t, ok := a.(Term)
		if !ok {
			panic(execError{"symbolic interface method " + full + " with non-scalar argument"})
		}
		targs = append(targs, t)
		key += "|" + t.E
	}
	if vc.pureCache == nil {
		vc.pureCache = map[string][]Val{}
	}
	cached, hit := vc.pureCache[key]
	var rets []Val
	if hit {
		rets = cached
	} else {
		for i := 0; i < sig.Results().Len(); i++ {
			rt := sig.Results().At(i).Type()
			s, ok := vc.sortOf(rt)
			if !ok {
				if _, isIface := rt.Underlying().(*types.Interface); isIface {
					vc.declareSort("Iface")
					id := vc.ufApp(fmt.Sprintf("%s.%d", full, i), OpaqueSort("Iface"), targs...)
					rets = append(rets, SymIface{T: id, Type: rt})
					continue
				}
				if _, isStruct := rt.Underlying().(*types.Struct); isStruct && len(args) == 0 {
					// e.g. image.Image.Bounds(): a struct of scalars, one constant per field
					rets = append(rets, vc.fresh(rt, fmt.Sprintf("%s.%d", full, i), st))
					continue
				}
				panic(execError{"symbolic interface method " + full + " has unsupported result type"})
			}
			var t Term
			if len(args) == 0 && vc.noDefine == 0 {
				t = vc.freshTerm(fmt.Sprintf("%s.%d", full, i), s)
			} else {
				t = vc.ufApp(fmt.Sprintf("%s.%d", full, i), s, targs...)
			}
			t.Signed = isSigned(rt)
			rets = append(rets, t)
		}
		vc.pureCache[key] = rets
	}
	for i := 0; i < sig.Results().Len(); i++ {
		if t, ok := rets[i].(Term); ok && vc.mode.IntMath {
			st.Fact(vc.typeRange(t, sig.Results().At(i).Type()))
		}
	}
	if full == "(image/color.Color).RGBA" {
		// A-IMG: alpha-premultiplied 16-bit channels
		vc.assume("A-IMG")
		lim := vc.intConst(0xffff, types.Typ[types.Uint32])
		a := rets[3].(Term)
		st.Fact(vc.iLe(a, lim, false))
		for k := 0; k < 3; k++ {
			st.Fact(vc.iLe(rets[k].(Term), a, false))
		}
	}
	return rets
}

func (vc *VC) callBuiltin(fr *Frame, st *State, name string, args []Val, c *ssa.CallCommon, pos token.Pos) []Outcome {
	switch name {
	case "len":
		switch v := args[0].(type) {
		case SliceVal:
			return one(st, v.Len)
		case Term:
			if v.S.Eq(SStr) {
				l := vc.ufApp("len_of_string", vc.intSort(64), v)
				l.Signed = true
				st.Assume(vc.iLe(vc.idx(0), l, true))
				return one(st, l)
			}
			if v.S.K == KArr {
				return one(st, vc.idx(arrayLen(c.Args[0].Type())))
			}
		case ArrVal:
			return one(st, vc.idx(int64(len(v.E))))
		case MapVal:
			if v.Cell == nil {
				return one(st, vc.idx(0))
			}
			return one(st, st.mem[v.Cell].(mapObj).Count)
		}
		panic(execError{fmt.Sprintf("len of %T", args[0])})
	case "cap":
		if v, ok := args[0].(SliceVal); ok {
			return one(st, v.Cap)
		}
	case "copy":
		return vc.builtinCopy(fr, st, args)
	case "append":
		return vc.builtinAppend(fr, st, args, c, pos)
	case "recover":
		if st.panicking {
			st.recovered = true
			st.panicking = false
			vc.declareSort("Iface")
			return one(st, IfaceVal{Dyn: types.Typ[types.String], V: vc.strLit("<panic value>")})
		}
		return one(st, IfaceVal{})
	}
	panic(execError{"unsupported builtin " + name})
}

var _ = strings.HasPrefix


// io.CopyN(dst *bytes.Buffer, src stream, n): exactly n bytes are appended to dst, or
// everything that was left is consumed and a non-nil error is returned (A-IO). The buffer
// grows with the bytes delivered, not with n.
func extIoCopyN(vc *VC, fr *Frame, st *State, args []Val, pos token.Pos) []Outcome {
	vc.assume("A-IO")
	dst, ok := args[0].(IfaceVal)
	if !ok {
		panic(execError{"io.CopyN destination"})
	}
	bp, ok := dst.V.(PtrVal)
	if !ok {
		panic(execError{"io.CopyN destination is not a *bytes.Buffer"})
	}
	p, s := vc.getStream(st, args[1])
	n := args[2].(Term)
	b := vc.bufferObj(st, bp)
	is := vc.intSort(64)
	var res []Outcome
	rem := vc.iSub(s.Len, s.Pos)
	neg := vc.iLt(n, vc.idx(0), true)
	enough := And(Not(neg), vc.iLe(n, rem, true))
	mk := func(s0 *State, cnt Term) {
		if b.Fresh {
			// first write into an empty buffer: the content is a view of the stream bytes
			vc.store(s0, bp, BufferObj{Content: s.Data, Base: vc.iAdd(s.Base, s.Pos), Len: cnt})
			ns := s
			ns.Pos = vc.iAdd(s.Pos, cnt)
			s0.mem[p.Cell] = ns
			s0.extWrites++
			if vc.writeLog != nil {
				vc.writeLog[p.Cell] = true
			}
			return
		}
		nc := vc.freshTerm("bufcontent", b.Content.S)
		vc.nfresh++
		q := Term{S: is, E: fmt.Sprintf("j!q%d", vc.nfresh), Signed: true}
		inNew := And(vc.iLe(b.Len, q, true), vc.iLt(q, vc.iAdd(b.Len, cnt), true))
		src := vc.streamByte(s, vc.iAdd(s.Pos, vc.iSub(q, b.Len)))
		body := Eq(Select(nc, q), Ite(inNew, src, Select(b.Content, vc.iAdd(b.Base, q))))
		s0.Fact(Term{S: SBool, E: fmt.Sprintf("(forall ((%s %s)) %s)", q.E, is.String(), body.E)})
		vc.store(s0, bp, BufferObj{Content: nc, Base: vc.idx(0), Len: vc.iAdd(b.Len, cnt)})
		ns := s
		ns.Pos = vc.iAdd(s.Pos, cnt)
		s0.mem[p.Cell] = ns
		s0.extWrites++
		if vc.writeLog != nil {
			vc.writeLog[p.Cell] = true
		}
	}
	s1 := st.Clone()
	s1.Assume(enough)
	if !s1.Infeasible() {
		mk(s1, n)
		res = append(res, Outcome{St: s1, Ret: []Val{n, Term{S: SErr, E: "err_nil"}}})
	}
	s2 := st.Clone()
	s2.Assume(And(Not(neg), Not(vc.iLe(n, rem, true))))
	if !s2.Infeasible() {
		mk(s2, rem)
		res = append(res, Outcome{St: s2, Ret: []Val{rem, vc.newError(s2, "copyn")}})
	}
	s3 := st
	s3.Assume(neg)
	if !s3.Infeasible() {
		// negative n: LimitReader yields nothing; CopyN returns (0, nil) since written == n is false -> EOF
		res = append(res, Outcome{St: s3, Ret: []Val{vc.idx(0), vc.newError(s3, "copyn")}})
	}
	return res
}


func extReaderLen(vc *VC, fr *Frame, st *State, args []Val, pos token.Pos) []Outcome {
	_, s := vc.getStream(st, args[0])
	return one(st, vc.iSub(s.Len, s.Pos))
}
