package main

import (
	"fmt"
	"os"
)

func debugObl(o *Obligation) {
	if os.Getenv("VCGO_DBG") == "" {
		return
	}
	fmt.Println("== ", o.Name, len(o.Assumes))
	for _, a := range o.Assumes {
		fmt.Println("   A:", truncate(a.E, 200))
	}
}

func dbgf(format string, a ...interface{}) {
	if os.Getenv("VCGO_TRACE") != "" {
		fmt.Printf("TRACE "+format+"\n", a...)
	}
}
