package main

// Bounded stand-ins, structural (dataflow) obligations and replay.

type extraFailure struct {
	Name    string
	Reason  string
	Detail  string
	Witness bool
}

type extraResult struct {
	Obligations int
	Discharged  int
	Failures    []extraFailure
	Bounded     interface{}
	Assumed     []string
	Samples     []interface{}
}

type replayResult struct {
	confirmed bool
	text      string
}

func runExtras(eng *Engine, id, tier string, seed int64, work string) []extraResult {
	return nil
}

func tryReplay(eng *Engine, o *Obligation, dir string) replayResult {
	return replayResult{}
}

func runReplay(repo, path string) int {
	return 0
}
