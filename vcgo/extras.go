package main

// Bounded stand-ins, structural (dataflow) obligations and replay.

import (
	"go/ast"
	"time"
	"context"
	"encoding/json"
	"fmt"
	"go/token"
	"go/types"
	"os"
	"os/exec"
	"path/filepath"
	"strings"

	"golang.org/x/tools/go/ssa"
)

type extraFailure struct {
	Name    string
	Reason  string
	Detail  string
	Witness bool
}

type extraResult struct {
	Obligations int
	Discharged  int
	Failures    []extraFailure
	Bounded     interface{}
	Assumed     []string
	Samples     []interface{}
	Backend     string // what discharged the obligations of this extra check
}

func goEnv() []string {
	return append(os.Environ(), "GOFLAGS=-mod=mod", "GOPROXY=off", "GOSUMDB=off", "GOTOOLCHAIN=local")
}

func runExtras(eng *Engine, id, tier string, seed int64, work string) []extraResult {
	var res []extraResult
	switch id {
	case "C01":
		res = append(res, runBoundedCurves(eng, work, id, []string{"decode8.", "decode16.within", "decode16.strictly", "decode.zero", "decode.max"}))
	case "C02":
		res = append(res, runBoundedCurves(eng, work, id, []string{"encode"}))
	case "C14":
		res = append(res, runBoundedCurves(eng, work, id, []string{"decode16.below-identity-margin"}))
	case "C10":
		res = append(res, runLeanLifting())
		res = append(res, runBoundedImages(eng, work, "linear", "linear", []string{"transform."}))
	case "C15":
		res = append(res, runLeanLifting())
		res = append(res, runBoundedImages(eng, work, "prism", ".", []string{"convert."}))
	case "C08":
		res = append(res, runBoundedICC(eng, work, tier, seed, []string{"delivery."}))
	case "C17":
		res = append(res, runBoundedICC(eng, work, tier, seed, []string{"tagtable.", "description."}))
	case "C07", "C09":
		res = append(res, checkRecovers(eng, id))
	case "C11":
		res = append(res, checkGuardedGlobals(eng))
		res = append(res, runBoundedRace(eng, work, tier))
	}
	return res
}

// runBoundedCurves injects /verif/bounded/curves_test.go.tmpl into the three curve packages
// with -overlay and runs the real code over the complete table domains.
func runBoundedCurves(eng *Engine, work, id string, prefixes []string) extraResult {
	r := extraResult{}
	tmpl, err := os.ReadFile(filepath.Join(verifDir, "bounded", "curves_test.go.tmpl"))
	if err != nil {
		// fall back to the installed location when VCGO_VERIF points at a scratch dir
		tmpl, err = os.ReadFile("/verif/bounded/curves_test.go.tmpl")
	}
	if err != nil {
		r.Obligations = 1
		r.Failures = append(r.Failures, extraFailure{Name: "bounded.curves#setup", Reason: "harness template missing", Detail: err.Error()})
		return r
	}
	pkgs := []string{"srgb", "adobergb", "prophotorgb"}
	overlay := map[string]map[string]string{"Replace": {}}
	for _, p := range pkgs {
		src := strings.ReplaceAll(string(tmpl), "@PKG@", p)
		f := filepath.Join(work, "bounded_"+p+"_test.go")
		os.WriteFile(f, []byte(src), 0o644)
		overlay["Replace"][filepath.Join(eng.repoDir, p, "vcgo_bounded_test.go")] = f
	}
	ovb, _ := json.Marshal(overlay)
	ovf := filepath.Join(work, "overlay_bounded.json")
	os.WriteFile(ovf, ovb, 0o644)
	type out struct {
		Package     string `json:"package"`
		Evaluations int64  `json:"evaluations"`
		Failures    []struct {
			Check string `json:"check"`
			Index int    `json:"index"`
			Got   string `json:"got"`
		} `json:"failures"`
	}
	total := int64(0)
	var domains []interface{}
	type job struct {
		pkg    string
		output string
		err    error
		res    out
		have   bool
	}
	jobs := make([]*job, len(pkgs))
	done := make(chan int, len(pkgs))
	for i, p := range pkgs {
		jobs[i] = &job{pkg: p}
		go func(i int, p string) {
			outf := filepath.Join(work, "bounded_"+p+".json")
			cmd := exec.Command("go", "test", "-overlay", ovf, "-vet=off", "-count=1", "-timeout", "900s", "-run", "TestVcgoBoundedCurves", "./"+p)
			cmd.Dir = eng.repoDir
			cmd.Env = append(goEnv(), "VCGO_BOUNDED_OUT="+outf)
			b, err := cmd.CombinedOutput()
			jobs[i].output = string(b)
			jobs[i].err = err
			if jb, e2 := os.ReadFile(outf); e2 == nil {
				if json.Unmarshal(jb, &jobs[i].res) == nil {
					jobs[i].have = true
				}
			}
			done <- i
		}(i, p)
	}
	for range pkgs {
		<-done
	}
	for _, j := range jobs {
		r.Obligations++
		if !j.have {
			r.Failures = append(r.Failures, extraFailure{Name: "bounded.curves." + j.pkg + "#run", Reason: "bounded harness did not complete", Detail: firstLines(j.output, 30)})
			continue
		}
		total += j.res.Evaluations
		bad := false
		for _, f := range j.res.Failures {
			match := false
			for _, pre := range prefixes {
				if strings.HasPrefix(f.Check, pre) {
					match = true
				}
			}
			if !match {
				continue
			}
			bad = true
			r.Failures = append(r.Failures, extraFailure{Name: fmt.Sprintf("bounded.curves.%s#%s", j.pkg, f.Check),
				Reason:  "table entry violates the published curve (exact rational oracle) on the real code",
				Detail:  fmt.Sprintf("package %s check %s index %d value %s", j.pkg, f.Check, f.Index, f.Got),
				Witness: true})
		}
		if !bad {
			r.Discharged++
		}
		domains = append(domains, map[string]interface{}{"package": j.pkg, "evaluations": j.res.Evaluations})
	}
	r.Bounded = map[string]interface{}{
		"name": "curve tables vs published transfer functions", "label": "bounded (execution of the real code, not deduction)",
		"domain":     "complete: 256+65536 decode codes and 512+65536 encode table sample points per curve package",
		"exhaustive": true, "evaluations": total, "checks": prefixes, "per_package": domains,
		"oracle": "exact rational arithmetic (math/big), independent of math.Pow",
	}
	r.Samples = append(r.Samples, map[string]interface{}{"bounded": "srgb.From16Bit(i) vs ((i/65535+0.055)/1.055)^(12/5) within 3e-7 for every i"})
	return r
}

// runLeanLifting checks /verif/lemmas/Lifting.lean with the installed Lean 4: the step from the per-iteration
// facts (step contracts) to the whole-image statement, for any order of the iterations. It is a lemma over the
// contracts' shape, not over the code; that the loops instantiate its hypotheses is argued in DESIGN.md.
func runLeanLifting() extraResult {
	r := extraResult{Obligations: 1, Backend: "lean-4"}
	file := filepath.Join(verifDir, "lemmas", "Lifting.lean")
	if _, err := os.Stat(file); err != nil {
		file = "/verif/lemmas/Lifting.lean"
	}
	ctx, cancel := context.WithTimeout(context.Background(), 300*time.Second)
	defer cancel()
	out, err := exec.CommandContext(ctx, "lean", file).CombinedOutput()
	text := string(out)
	if err != nil || strings.Contains(text, "error") || strings.Contains(text, "sorryAx") || !strings.Contains(text, "'lifting'") || !strings.Contains(text, "'lifting_inplace'") {
		r.Failures = append(r.Failures, extraFailure{Name: "lemma.lifting#lean", Reason: "the Lean proof of the lifting lemma is not accepted", Detail: firstLines(text, 20)})
		return r
	}
	r.Discharged = 1
	r.Samples = append(r.Samples, map[string]interface{}{"lemma": "lifting (lemmas/Lifting.lean): per-iteration footprint/frame facts + disjoint footprints + every pixel exactly once ==> whole-image statement, any iteration order", "backend": "lean 4", "axioms": strings.TrimSpace(text)})
	return r
}

// runBoundedImages injects /verif/bounded/images_test.go.tmpl (+ the package's body) with -overlay and runs the real
// image functions over the enumerated images against their per-pixel definition (bounded, never counted as proved).
func runBoundedImages(eng *Engine, work, pkg, pkgDir string, prefixes []string) extraResult {
	r := extraResult{Obligations: 1}
	read := func(name string) ([]byte, error) {
		b, err := os.ReadFile(filepath.Join(verifDir, "bounded", name))
		if err != nil {
			b, err = os.ReadFile(filepath.Join("/verif/bounded", name))
		}
		return b, err
	}
	tmpl, err1 := read("images_test.go.tmpl")
	body, err2 := read("images_" + pkg + ".body")
	if err1 != nil || err2 != nil {
		r.Failures = append(r.Failures, extraFailure{Name: "bounded.images#setup", Reason: "harness template missing"})
		return r
	}
	src := strings.ReplaceAll(strings.ReplaceAll(string(tmpl), "@PKG@", pkg), "@BODY@", string(body))
	f := filepath.Join(work, "bounded_images_"+pkg+"_test.go")
	os.WriteFile(f, []byte(src), 0o644)
	overlay := map[string]map[string]string{"Replace": {filepath.Join(eng.repoDir, pkgDir, "vcgo_bounded_images_test.go"): f}}
	ovb, _ := json.Marshal(overlay)
	ovf := filepath.Join(work, "overlay_bounded_images_"+pkg+".json")
	os.WriteFile(ovf, ovb, 0o644)
	outf := filepath.Join(work, "bounded_images_"+pkg+".json")
	cmd := exec.Command("go", "test", "-overlay", ovf, "-vet=off", "-count=1", "-timeout", "600s", "-run", "TestVcgoBoundedImages", "./"+pkgDir)
	cmd.Dir = eng.repoDir
	cmd.Env = append(goEnv(), "VCGO_BOUNDED_OUT="+outf)
	b, _ := cmd.CombinedOutput()
	var res struct {
		Evaluations int64  `json:"evaluations"`
		Domain      string `json:"domain"`
		Failures    []struct {
			Check string `json:"check"`
			Index int    `json:"index"`
			Got   string `json:"got"`
		} `json:"failures"`
	}
	jb, e2 := os.ReadFile(outf)
	if e2 != nil || json.Unmarshal(jb, &res) != nil {
		r.Failures = append(r.Failures, extraFailure{Name: "bounded.images." + pkg + "#run", Reason: "bounded harness did not complete (a panic in the image function, or a build problem)", Detail: firstLines(string(b), 30), Witness: strings.Contains(string(b), "panic")})
		return r
	}
	bad := false
	for _, fl := range res.Failures {
		match := false
		for _, pre := range prefixes {
			if strings.HasPrefix(fl.Check, pre) {
				match = true
			}
		}
		if !match {
			continue
		}
		bad = true
		r.Failures = append(r.Failures, extraFailure{Name: "bounded.images#" + fl.Check,
			Reason:  "the real image function, run on an enumerated image, differs from the per-pixel definition",
			Detail:  fmt.Sprintf("check %s rectangle #%d: %s", fl.Check, fl.Index, fl.Got),
			Witness: true})
	}
	if !bad {
		r.Discharged = 1
	}
	r.Bounded = map[string]interface{}{
		"name": "whole-image behaviour of the image functions", "label": "bounded (execution of the real code, not deduction)",
		"domain": res.Domain, "exhaustive": false, "evaluations": res.Evaluations, "checks": prefixes,
		"oracle": "draw.Draw with Src (conversion helpers); dst.Set(p - src.Min + dst.Min, transformColor(src.At(p))) on a copy of the parent (TransformImageColor)",
	}
	r.Samples = append(r.Samples, map[string]interface{}{"bounded": "whole parent buffer after TransformImageColor / every pixel after ConvertImageTo* equals the definition, for every enumerated image and parallelism"})
	return r
}

// runBoundedRace builds /verif/bounded/race_test.go.tmpl with the Go race detector (injected with -overlay) and runs
// it in several fresh processes: first use of every lazily built table from eight goroutines across the colour
// packages, and the image functions with several workers. A sample of schedules (bounded), not a proof.
func runBoundedRace(eng *Engine, work, tier string) extraResult {
	r := extraResult{Obligations: 1}
	tmpl, err := os.ReadFile(filepath.Join(verifDir, "bounded", "race_test.go.tmpl"))
	if err != nil {
		tmpl, err = os.ReadFile("/verif/bounded/race_test.go.tmpl")
	}
	if err != nil {
		r.Failures = append(r.Failures, extraFailure{Name: "bounded.race#setup", Reason: "harness template missing", Detail: err.Error()})
		return r
	}
	f := filepath.Join(work, "bounded_race_test.go")
	os.WriteFile(f, tmpl, 0o644)
	overlay := map[string]map[string]string{"Replace": {filepath.Join(eng.repoDir, "vcgo_bounded_race_test.go"): f}}
	ovb, _ := json.Marshal(overlay)
	ovf := filepath.Join(work, "overlay_bounded_race.json")
	os.WriteFile(ovf, ovb, 0o644)
	bin := filepath.Join(work, "race.test")
	cmd := exec.Command("go", "test", "-race", "-c", "-overlay", ovf, "-vet=off", "-o", bin, ".")
	cmd.Dir = eng.repoDir
	cmd.Env = goEnv()
	if b, err := cmd.CombinedOutput(); err != nil {
		// the race detector is part of the toolchain; if it cannot build here the stand-in is skipped, not failed
		r.Obligations = 0
		r.Samples = append(r.Samples, map[string]interface{}{"bounded": "race-detector build not available: " + firstLines(string(b), 3)})
		return r
	}
	runs := 6
	if tier == "thorough" {
		runs = 40
	}
	for i := 0; i < runs; i++ {
		c := exec.Command(bin, "-test.run", "^TestVcgoRace$", "-test.count=1", "-test.timeout=120s")
		c.Dir = eng.repoDir
		out, err := c.CombinedOutput()
		if err != nil || strings.Contains(string(out), "DATA RACE") {
			r.Failures = append(r.Failures, extraFailure{Name: "bounded.race#detector-silent", Reason: "the Go race detector reports a data race (or the run failed) on the real code",
				Detail: firstLines(string(out), 40), Witness: true})
			return r
		}
	}
	r.Discharged = 1
	r.Bounded = map[string]interface{}{
		"name": "race detector over first use of the lazily built tables and the image workers", "label": "bounded (execution of the real code under the race detector, a sample of schedules)",
		"domain": fmt.Sprintf("%d fresh processes x (8 goroutines x 500 first-use calls across srgb, adobergb, prophotorgb, displayp3; image linearise/encode/convert with parallelism 1,2,3,7,16)", runs),
		"exhaustive": false, "evaluations": int64(runs), "checks": []string{"detector-silent"}, "oracle": "Go race detector",
	}
	return r
}

// runBoundedICC injects /verif/bounded/icc_profiles_test.go.tmpl into meta/icc with -overlay and runs the
// real ProfileReader over the enumerated profiles x delivery schedules (a bounded stand-in for what the
// abstract-map model of the tag table cannot express: never counted as proved).
func runBoundedICC(eng *Engine, work, tier string, seed int64, prefixes []string) extraResult {
	r := extraResult{Obligations: 1}
	tmpl, err := os.ReadFile(filepath.Join(verifDir, "bounded", "icc_profiles_test.go.tmpl"))
	if err != nil {
		tmpl, err = os.ReadFile("/verif/bounded/icc_profiles_test.go.tmpl")
	}
	if err != nil {
		r.Failures = append(r.Failures, extraFailure{Name: "bounded.icc#setup", Reason: "harness template missing", Detail: err.Error()})
		return r
	}
	f := filepath.Join(work, "bounded_icc_test.go")
	os.WriteFile(f, tmpl, 0o644)
	overlay := map[string]map[string]string{"Replace": {filepath.Join(eng.repoDir, "meta", "icc", "vcgo_bounded_test.go"): f}}
	ovb, _ := json.Marshal(overlay)
	ovf := filepath.Join(work, "overlay_bounded_icc.json")
	os.WriteFile(ovf, ovb, 0o644)
	outf := filepath.Join(work, "bounded_icc.json")
	cmd := exec.Command("go", "test", "-overlay", ovf, "-vet=off", "-count=1", "-timeout", "600s", "-run", "TestVcgoBoundedICC", "./meta/icc")
	cmd.Dir = eng.repoDir
	cmd.Env = append(goEnv(), "VCGO_BOUNDED_OUT="+outf, "VCGO_TIER="+tier, fmt.Sprintf("VCGO_SEED=%d", seed))
	b, _ := cmd.CombinedOutput()
	var res struct {
		Evaluations int64  `json:"evaluations"`
		Domain      string `json:"domain"`
		Failures    []struct {
			Check string `json:"check"`
			Index int    `json:"index"`
			Got   string `json:"got"`
		} `json:"failures"`
	}
	jb, e2 := os.ReadFile(outf)
	if e2 != nil || json.Unmarshal(jb, &res) != nil {
		r.Failures = append(r.Failures, extraFailure{Name: "bounded.icc#run", Reason: "bounded harness did not complete", Detail: firstLines(string(b), 30)})
		return r
	}
	bad := false
	for _, fl := range res.Failures {
		match := false
		for _, pre := range prefixes {
			if strings.HasPrefix(fl.Check, pre) {
				match = true
			}
		}
		if !match {
			continue
		}
		bad = true
		r.Failures = append(r.Failures, extraFailure{Name: "bounded.icc#" + fl.Check,
			Reason:  "the real ProfileReader, run on an enumerated synthetic profile, violates the check",
			Detail:  fmt.Sprintf("check %s profile #%d: %s", fl.Check, fl.Index, fl.Got),
			Witness: true})
	}
	if !bad {
		r.Discharged = 1
	}
	r.Bounded = map[string]interface{}{
		"name": "ICC profile reader over synthetic profiles and delivery schedules", "label": "bounded (execution of the real code, not deduction)",
		"domain": res.Domain, "exhaustive": false, "evaluations": res.Evaluations, "checks": prefixes,
		"oracle": "construction of the profile (declared offsets, sizes and strings) and the all-at-once read of the same bytes",
	}
	r.Samples = append(r.Samples, map[string]interface{}{"bounded": "ReadProfile(schedule(bytes)) == ReadProfile(bytes.NewReader(bytes)) for every enumerated profile and schedule"})
	return r
}

// runReplay re-runs the generated test stored in a replay file against the working tree.
// Exit status 1: the violation reproduces; 0: it does not (or the file carries no test).
func runReplay(repo, path string) int {
	b, err := os.ReadFile(path)
	if err != nil {
		fmt.Println("cannot read replay file:", err)
		return 2
	}
	var rec struct {
		Obligation string `json:"obligation"`
		Reason     string `json:"reason"`
		Output     string `json:"solver_output"`
		Replay     *struct {
			Package string            `json:"package_dir"`
			Source  string            `json:"test_source"`
			Inputs  map[string]string `json:"inputs"`
			Kind    string            `json:"obligation_kind"`
		} `json:"replay"`
	}
	if err := json.Unmarshal(b, &rec); err != nil {
		fmt.Println("cannot parse replay file:", err)
		return 2
	}
	fmt.Println("obligation:", rec.Obligation)
	fmt.Println("reason:", rec.Reason)
	if rec.Replay == nil || rec.Replay.Source == "" {
		fmt.Println("this violation carries no replayable input (no-failing-input-found); solver output:")
		fmt.Println(rec.Output)
		return 0
	}
	out, _ := runReplayTest(repo, rec.Replay.Package, rec.Replay.Source)
	for _, ln := range strings.Split(out, "\n") {
		if strings.Contains(ln, "VCGO-REPLAY") {
			fmt.Println(strings.TrimSpace(ln))
		}
	}
	ok, text := judgeReplay(&Obligation{Kind: rec.Replay.Kind}, out)
	fmt.Println(text)
	if ok {
		return 1
	}
	return 0
}

// checkRecovers is a structural (dataflow) obligation: every function whose contract says
// `recovers` installs, before any instruction that can panic, a deferred closure that calls
// recover() and stores a non-nil error into the function's error result.
func checkRecovers(eng *Engine, id string) extraResult {
	r := extraResult{}
	var keys []string
	for k, fc := range eng.contracts {
		if strings.Contains(k, "@") || !fc.Recovers || fc.Fn == nil {
			continue
		}
		keys = append(keys, k)
	}
	sortStrings(keys)
	// functions declared may_panic: every static caller must recover (or be may_panic itself)
	for k, fc := range eng.contracts {
		if strings.Contains(k, "@") || !fc.MayPanic || fc.Fn == nil {
			continue
		}
		r.Obligations++
		bad := ""
		for _, caller := range eng.fnByKey {
			for _, b := range caller.Blocks {
				for _, ins := range b.Instrs {
					c, ok := ins.(ssa.CallInstruction)
					if !ok {
						continue
					}
					if callee, ok := c.Common().Value.(*ssa.Function); ok && callee == fc.Fn {
						cfc := eng.contracts[caller.Pkg.Pkg.Name()+"."+fnKey(caller)]
						if !eng.hasRecover(caller) && (cfc == nil || !cfc.MayPanic) {
							bad = "called from " + caller.String() + " which neither recovers nor is declared may_panic"
						}
					}
				}
			}
		}
		if bad != "" {
			r.Failures = append(r.Failures, extraFailure{Name: k + "#may-panic-callers", Reason: "a function whose panics are tolerated has a caller that does not recover", Detail: bad})
		} else {
			r.Discharged++
		}
	}
	for _, k := range keys {
		fc := eng.contracts[k]
		r.Obligations++
		if msg := recoverInstalledFirst(eng, fc.Fn); msg != "" {
			r.Failures = append(r.Failures, extraFailure{Name: k + "#recovers", Reason: "deferred recover is not installed before the first instruction that can panic", Detail: msg})
		} else {
			r.Discharged++
			r.Samples = append(r.Samples, map[string]string{"structural": k + ": defer func(){ recover() ... err = ... }() precedes every panic-capable instruction"})
		}
	}
	return r
}

func sortStrings(a []string) {
	for i := range a {
		for j := i + 1; j < len(a); j++ {
			if a[j] < a[i] {
				a[i], a[j] = a[j], a[i]
			}
		}
	}
}

func recoverInstalledFirst(eng *Engine, fn *ssa.Function) string {
	if len(fn.Blocks) == 0 {
		return "no body"
	}
	for _, ins := range fn.Blocks[0].Instrs {
		switch x := ins.(type) {
		case *ssa.Defer:
			var cl *ssa.Function
			if mc, ok := x.Call.Value.(*ssa.MakeClosure); ok {
				cl = mc.Fn.(*ssa.Function)
			} else if f, ok := x.Call.Value.(*ssa.Function); ok {
				cl = f
			}
			if cl == nil || !callsRecover(cl) {
				return "first defer does not call recover()"
			}
			if !storesError(cl) {
				return "recovering closure does not set the error result"
			}
			if fn.Recover == nil {
				return "function has no recover block (results are not named)"
			}
			return ""
		case *ssa.Alloc, *ssa.Store, *ssa.MakeClosure, *ssa.FieldAddr, *ssa.DebugRef, *ssa.MakeInterface, *ssa.ChangeInterface, *ssa.ChangeType:
			continue
		case *ssa.UnOp:
			if x.Op.String() == "*" {
				if _, isGlobal := x.X.(*ssa.Global); isGlobal {
					continue
				}
				if _, isAlloc := x.X.(*ssa.Alloc); isAlloc {
					continue
				}
			}
			return "load through a possibly nil pointer before the recover is installed: " + x.String()
		case *ssa.Call:
			if f, ok := x.Call.Value.(*ssa.Function); ok && eng.isRepoPkg(f.Pkg.Pkg) && cannotPanic(f) {
				continue
			}
			return "call before the recover is installed: " + x.String()
		default:
			return "instruction that may panic before the recover is installed: " + ins.String()
		}
	}
	return "no defer in the entry block"
}

func storesError(cl *ssa.Function) bool {
	for _, b := range cl.Blocks {
		for _, ins := range b.Instrs {
			if s, ok := ins.(*ssa.Store); ok && isErrorType(s.Val.Type()) {
				if c, isConst := s.Val.(*ssa.Const); isConst && c.Value == nil {
					continue // storing nil
				}
				return true
			}
		}
	}
	return false
}

func cannotPanic(f *ssa.Function) bool {
	for _, b := range f.Blocks {
		for _, ins := range b.Instrs {
			switch ins.(type) {
			case *ssa.Alloc, *ssa.Store, *ssa.FieldAddr, *ssa.DebugRef, *ssa.Return, *ssa.MakeInterface, *ssa.ChangeInterface:
			default:
				return false
			}
		}
	}
	return true
}

// checkGuardedGlobals: the ownership discipline behind C11 as dataflow obligations over SSA.
// (1) every package-level variable of the module is either written only during package
// initialisation, or written only inside a closure passed to Do of a package-level sync.Once
// and read elsewhere only after a call to that Once's Do in the same function;
// (2) closures run by parallel.RunWorkers do not write package-level or captured variables.
func checkGuardedGlobals(eng *Engine) extraResult {
	r := extraResult{}
	var pkgs []*ssa.Package
	for _, sp := range eng.byName {
		pkgs = append(pkgs, sp)
	}
	for i := range pkgs {
		for j := i + 1; j < len(pkgs); j++ {
			if pkgs[j].Pkg.Path() < pkgs[i].Pkg.Path() {
				pkgs[i], pkgs[j] = pkgs[j], pkgs[i]
			}
		}
	}
	isInitFn := func(f *ssa.Function) bool {
		for g := f; g != nil; g = g.Parent() {
			if g.Name() == "init" || strings.HasPrefix(g.Name(), "init#") {
				return true
			}
		}
		return false
	}
	for _, sp := range pkgs {
		var fns []*ssa.Function
		var collect func(f *ssa.Function)
		collect = func(f *ssa.Function) {
			if f == nil || len(f.Blocks) == 0 {
				return
			}
			fns = append(fns, f)
			for _, a := range f.AnonFuncs {
				collect(a)
			}
		}
		for _, m := range sp.Members {
			switch x := m.(type) {
			case *ssa.Function:
				collect(x)
			case *ssa.Type:
				for _, T := range []types.Type{x.Type(), types.NewPointer(x.Type())} {
					ms := eng.prog.MethodSets.MethodSet(T)
					for i := 0; i < ms.Len(); i++ {
						if f := eng.prog.MethodValue(ms.At(i)); f != nil && f.Pkg == sp && f.Synthetic == "" {
							collect(f)
						}
					}
				}
			}
		}
		// which closure is guarded by which Once
		guardOf := map[*ssa.Function]*ssa.Global{}
		for _, f := range fns {
			for _, b := range f.Blocks {
				for _, ins := range b.Instrs {
					c, ok := ins.(*ssa.Call)
					if !ok {
						continue
					}
					callee, ok := c.Call.Value.(*ssa.Function)
					if !ok || callee.String() != "(*sync.Once).Do" {
						continue
					}
					og, _ := c.Call.Args[0].(*ssa.Global)
					if mc, ok := c.Call.Args[1].(*ssa.MakeClosure); ok && og != nil {
						guardOf[mc.Fn.(*ssa.Function)] = og
					}
					if fv, ok := c.Call.Args[1].(*ssa.Function); ok && og != nil {
						guardOf[fv] = og
					}
				}
			}
		}
		// a named function all of whose uses (calls, or being handed to Once.Do) sit in package initialisers runs
		// only during package initialisation, like a closure written inside init
		usedOutsideInit := map[*ssa.Function]bool{}
		usedAtAll := map[*ssa.Function]bool{}
		for _, f := range fns {
			for _, b := range f.Blocks {
				for _, ins := range b.Instrs {
					for _, op := range ins.Operands(nil) {
						if op == nil || *op == nil {
							continue
						}
						if callee, ok := (*op).(*ssa.Function); ok && callee.Pkg == sp && callee.Parent() == nil {
							usedAtAll[callee] = true
							if !isInitFn(f) {
								usedOutsideInit[callee] = true
							}
						}
					}
				}
			}
		}
		baseInit := isInitFn
		isInitFn = func(f *ssa.Function) bool {
			if baseInit(f) {
				return true
			}
			for g := f; g != nil; g = g.Parent() {
				if g.Parent() == nil && usedAtAll[g] && !usedOutsideInit[g] && !ast.IsExported(g.Name()) {
					return true
				}
			}
			return false
		}
		var globals []*ssa.Global
		for _, m := range sp.Members {
			if g, ok := m.(*ssa.Global); ok && !strings.HasPrefix(g.Name(), "init$") {
				globals = append(globals, g)
			}
		}
		for i := range globals {
			for j := i + 1; j < len(globals); j++ {
				if globals[j].Name() < globals[i].Name() {
					globals[i], globals[j] = globals[j], globals[i]
				}
			}
		}
		for _, g := range globals {
			if isNamed(g.Type().(*types.Pointer).Elem(), "sync", "Once") {
				continue
			}
			r.Obligations++
			name := sp.Pkg.Name() + "." + g.Name()
			var guard *ssa.Global
			bad := ""
			lateWriter := false
			for _, f := range fns {
				for _, b := range f.Blocks {
					for _, ins := range b.Instrs {
						st, ok := ins.(*ssa.Store)
						if !ok || rootGlobal(st.Addr) != g {
							continue
						}
						if isInitFn(f) {
							continue
						}
						lateWriter = true
						og := guardOf[f]
						if og == nil {
							bad = fmt.Sprintf("written in %s outside package initialisation and outside a sync.Once.Do closure", f.Name())
						} else if guard != nil && guard != og {
							bad = "written under two different Once variables"
						} else {
							guard = og
						}
					}
				}
			}
			if bad == "" && lateWriter {
				// every read outside the guarded closure must be dominated by guard.Do in its function
				for _, f := range fns {
					if guardOf[f] == guard || isInitFn(f) {
						continue
					}
					for _, b := range f.Blocks {
						for k, ins := range b.Instrs {
							u, ok := ins.(*ssa.UnOp)
							if !ok || u.Op != token.MUL || rootGlobal(u.X) != g {
								continue
							}
							if !dominatedByDo(f, b, k, guard) {
								bad = fmt.Sprintf("read in %s (%s) without a preceding %s.Do: this read races with the lazy initialisation", f.Name(), eng.fset.Position(u.Pos()), guard.Name())
							}
						}
					}
				}
			}
			if bad != "" {
				r.Failures = append(r.Failures, extraFailure{Name: "var " + name + "#guard", Reason: "package-level variable is neither constant after init nor consistently guarded by a sync.Once", Detail: bad})
			} else {
				r.Discharged++
			}
		}
		// worker closures
		for _, f := range fns {
			for _, b := range f.Blocks {
				for _, ins := range b.Instrs {
					c, ok := ins.(*ssa.Call)
					if !ok {
						continue
					}
					callee, ok := c.Call.Value.(*ssa.Function)
					if !ok || !strings.HasSuffix(callee.String(), "go-parallel.RunWorkers") {
						continue
					}
					mc, ok := c.Call.Args[1].(*ssa.MakeClosure)
					if !ok {
						continue
					}
					w := mc.Fn.(*ssa.Function)
					r.Obligations++
					bad := ""
					for _, wb := range w.Blocks {
						for _, wi := range wb.Instrs {
							if st, ok := wi.(*ssa.Store); ok {
								if rootGlobal(st.Addr) != nil {
									bad = "worker writes a package-level variable: " + st.String()
								}
								if _, isFree := st.Addr.(*ssa.FreeVar); isFree {
									bad = "worker writes a captured variable shared by all workers: " + st.String()
								}
							}
						}
					}
					key := sp.Pkg.Name() + "." + fnKey(w)
					if bad != "" {
						r.Failures = append(r.Failures, extraFailure{Name: key + "#worker-writes", Reason: "closure run by RunWorkers writes shared state", Detail: bad})
					} else {
						r.Discharged++
					}
				}
			}
		}
	}
	r.Samples = append(r.Samples, map[string]string{"structural": "srgb.encoded16ToLinearLUT: written only inside initFrom16BitLUTOnce.Do(func), every other read dominated by that Do"})
	return r
}

// dominatedByDo: some call to guard.Do precedes instruction k of block b on every path.
func dominatedByDo(f *ssa.Function, b *ssa.BasicBlock, k int, guard *ssa.Global) bool {
	for _, db := range f.Blocks {
		for i, ins := range db.Instrs {
			c, ok := ins.(*ssa.Call)
			if !ok {
				continue
			}
			callee, ok := c.Call.Value.(*ssa.Function)
			if !ok || callee.String() != "(*sync.Once).Do" {
				continue
			}
			if og, _ := c.Call.Args[0].(*ssa.Global); og != guard {
				continue
			}
			if db == b && i < k {
				return true
			}
			if db != b && db.Dominates(b) {
				return true
			}
		}
	}
	return false
}
