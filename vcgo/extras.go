package main

// Bounded stand-ins, structural (dataflow) obligations and replay.

import (
	"encoding/json"

	"fmt"
	"golang.org/x/tools/go/ssa"
	"os"
	"os/exec"
	"path/filepath"
	"strings"
)

type extraFailure struct {
	Name    string
	Reason  string
	Detail  string
	Witness bool
}

type extraResult struct {
	Obligations int
	Discharged  int
	Failures    []extraFailure
	Bounded     interface{}
	Assumed     []string
	Samples     []interface{}
}

type replayResult struct {
	confirmed bool
	text      string
}

func goEnv() []string {
	return append(os.Environ(), "GOFLAGS=-mod=mod", "GOPROXY=off", "GOSUMDB=off", "GOTOOLCHAIN=local")
}

func runExtras(eng *Engine, id, tier string, seed int64, work string) []extraResult {
	var res []extraResult
	switch id {
	case "C01":
		res = append(res, runBoundedCurves(eng, work, id, []string{"decode8.", "decode16.within", "decode16.strictly", "decode.zero", "decode.max"}))
	case "C02":
		res = append(res, runBoundedCurves(eng, work, id, []string{"encode"}))
	case "C14":
		res = append(res, runBoundedCurves(eng, work, id, []string{"decode16.below-identity-margin"}))
	case "C07", "C09":
		res = append(res, checkRecovers(eng, id))
	}
	return res
}

// runBoundedCurves injects /verif/bounded/curves_test.go.tmpl into the three curve packages
// with -overlay and runs the real code over the complete table domains.
func runBoundedCurves(eng *Engine, work, id string, prefixes []string) extraResult {
	r := extraResult{}
	tmpl, err := os.ReadFile(filepath.Join(verifDir, "bounded", "curves_test.go.tmpl"))
	if err != nil {
		// fall back to the installed location when VCGO_VERIF points at a scratch dir
		tmpl, err = os.ReadFile("/verif/bounded/curves_test.go.tmpl")
	}
	if err != nil {
		r.Obligations = 1
		r.Failures = append(r.Failures, extraFailure{Name: "bounded.curves#setup", Reason: "harness template missing", Detail: err.Error()})
		return r
	}
	pkgs := []string{"srgb", "adobergb", "prophotorgb"}
	overlay := map[string]map[string]string{"Replace": {}}
	for _, p := range pkgs {
		src := strings.ReplaceAll(string(tmpl), "@PKG@", p)
		f := filepath.Join(work, "bounded_"+p+"_test.go")
		os.WriteFile(f, []byte(src), 0o644)
		overlay["Replace"][filepath.Join(eng.repoDir, p, "vcgo_bounded_test.go")] = f
	}
	ovb, _ := json.Marshal(overlay)
	ovf := filepath.Join(work, "overlay_bounded.json")
	os.WriteFile(ovf, ovb, 0o644)
	type out struct {
		Package     string `json:"package"`
		Evaluations int64  `json:"evaluations"`
		Failures    []struct {
			Check string `json:"check"`
			Index int    `json:"index"`
			Got   string `json:"got"`
		} `json:"failures"`
	}
	total := int64(0)
	var domains []interface{}
	type job struct {
		pkg    string
		output string
		err    error
		res    out
		have   bool
	}
	jobs := make([]*job, len(pkgs))
	done := make(chan int, len(pkgs))
	for i, p := range pkgs {
		jobs[i] = &job{pkg: p}
		go func(i int, p string) {
			outf := filepath.Join(work, "bounded_"+p+".json")
			cmd := exec.Command("go", "test", "-overlay", ovf, "-vet=off", "-count=1", "-timeout", "900s", "-run", "TestVcgoBoundedCurves", "./"+p)
			cmd.Dir = eng.repoDir
			cmd.Env = append(goEnv(), "VCGO_BOUNDED_OUT="+outf)
			b, err := cmd.CombinedOutput()
			jobs[i].output = string(b)
			jobs[i].err = err
			if jb, e2 := os.ReadFile(outf); e2 == nil {
				if json.Unmarshal(jb, &jobs[i].res) == nil {
					jobs[i].have = true
				}
			}
			done <- i
		}(i, p)
	}
	for range pkgs {
		<-done
	}
	for _, j := range jobs {
		r.Obligations++
		if !j.have {
			r.Failures = append(r.Failures, extraFailure{Name: "bounded.curves." + j.pkg + "#run", Reason: "bounded harness did not complete", Detail: firstLines(j.output, 30)})
			continue
		}
		total += j.res.Evaluations
		bad := false
		for _, f := range j.res.Failures {
			match := false
			for _, pre := range prefixes {
				if strings.HasPrefix(f.Check, pre) {
					match = true
				}
			}
			if !match {
				continue
			}
			bad = true
			r.Failures = append(r.Failures, extraFailure{Name: fmt.Sprintf("bounded.curves.%s#%s", j.pkg, f.Check),
				Reason:  "table entry violates the published curve (exact rational oracle) on the real code",
				Detail:  fmt.Sprintf("package %s check %s index %d value %s", j.pkg, f.Check, f.Index, f.Got),
				Witness: true})
		}
		if !bad {
			r.Discharged++
		}
		domains = append(domains, map[string]interface{}{"package": j.pkg, "evaluations": j.res.Evaluations})
	}
	r.Bounded = map[string]interface{}{
		"name": "curve tables vs published transfer functions", "label": "bounded (execution of the real code, not deduction)",
		"domain":     "complete: 256+65536 decode codes and 512+65536 encode table sample points per curve package",
		"exhaustive": true, "evaluations": total, "checks": prefixes, "per_package": domains,
		"oracle": "exact rational arithmetic (math/big), independent of math.Pow",
	}
	r.Samples = append(r.Samples, map[string]interface{}{"bounded": "srgb.From16Bit(i) vs ((i/65535+0.055)/1.055)^(12/5) within 3e-7 for every i"})
	return r
}

func tryReplay(eng *Engine, o *Obligation, dir string) replayResult {
	return replayResult{}
}

func runReplay(repo, path string) int {
	b, err := os.ReadFile(path)
	if err != nil {
		fmt.Println("cannot read replay file:", err)
		return 2
	}
	fmt.Println(string(b))
	return 0
}

// checkRecovers is a structural (dataflow) obligation: every function whose contract says
// `recovers` installs, before any instruction that can panic, a deferred closure that calls
// recover() and stores a non-nil error into the function's error result.
func checkRecovers(eng *Engine, id string) extraResult {
	r := extraResult{}
	var keys []string
	for k, fc := range eng.contracts {
		if strings.Contains(k, "@") || !fc.Recovers || fc.Fn == nil {
			continue
		}
		keys = append(keys, k)
	}
	sortStrings(keys)
	for _, k := range keys {
		fc := eng.contracts[k]
		r.Obligations++
		if msg := recoverInstalledFirst(eng, fc.Fn); msg != "" {
			r.Failures = append(r.Failures, extraFailure{Name: k + "#recovers", Reason: "deferred recover is not installed before the first instruction that can panic", Detail: msg})
		} else {
			r.Discharged++
			r.Samples = append(r.Samples, map[string]string{"structural": k + ": defer func(){ recover() ... err = ... }() precedes every panic-capable instruction"})
		}
	}
	return r
}

func sortStrings(a []string) {
	for i := range a {
		for j := i + 1; j < len(a); j++ {
			if a[j] < a[i] {
				a[i], a[j] = a[j], a[i]
			}
		}
	}
}

func recoverInstalledFirst(eng *Engine, fn *ssa.Function) string {
	if len(fn.Blocks) == 0 {
		return "no body"
	}
	for _, ins := range fn.Blocks[0].Instrs {
		switch x := ins.(type) {
		case *ssa.Defer:
			var cl *ssa.Function
			if mc, ok := x.Call.Value.(*ssa.MakeClosure); ok {
				cl = mc.Fn.(*ssa.Function)
			} else if f, ok := x.Call.Value.(*ssa.Function); ok {
				cl = f
			}
			if cl == nil || !callsRecover(cl) {
				return "first defer does not call recover()"
			}
			if !storesError(cl) {
				return "recovering closure does not set the error result"
			}
			if fn.Recover == nil {
				return "function has no recover block (results are not named)"
			}
			return ""
		case *ssa.Alloc, *ssa.Store, *ssa.MakeClosure, *ssa.FieldAddr, *ssa.DebugRef, *ssa.MakeInterface, *ssa.ChangeInterface, *ssa.ChangeType:
			continue
		case *ssa.UnOp:
			if x.Op.String() == "*" {
				if _, isGlobal := x.X.(*ssa.Global); isGlobal {
					continue
				}
				if _, isAlloc := x.X.(*ssa.Alloc); isAlloc {
					continue
				}
			}
			return "load through a possibly nil pointer before the recover is installed: " + x.String()
		case *ssa.Call:
			if f, ok := x.Call.Value.(*ssa.Function); ok && eng.isRepoPkg(f.Pkg.Pkg) && cannotPanic(f) {
				continue
			}
			return "call before the recover is installed: " + x.String()
		default:
			return "instruction that may panic before the recover is installed: " + ins.String()
		}
	}
	return "no defer in the entry block"
}

func storesError(cl *ssa.Function) bool {
	for _, b := range cl.Blocks {
		for _, ins := range b.Instrs {
			if s, ok := ins.(*ssa.Store); ok && isErrorType(s.Val.Type()) {
				if c, isConst := s.Val.(*ssa.Const); isConst && c.Value == nil {
					continue // storing nil
				}
				return true
			}
		}
	}
	return false
}

func cannotPanic(f *ssa.Function) bool {
	for _, b := range f.Blocks {
		for _, ins := range b.Instrs {
			switch ins.(type) {
			case *ssa.Alloc, *ssa.Store, *ssa.FieldAddr, *ssa.DebugRef, *ssa.Return, *ssa.MakeInterface, *ssa.ChangeInterface:
			default:
				return false
			}
		}
	}
	return true
}
