package main

// Modular calls: assert pre, havoc frame, assume post. And map stubs.

import (
	"fmt"
	"go/token"
	"go/types"
	"math/big"

	"golang.org/x/tools/go/ssa"
)

var bigZero = big.NewInt(0)
var big255 = big.NewInt(255)

func resultNames(fn *ssa.Function) []string {
	rs := fn.Signature.Results()
	names := make([]string, rs.Len())
	for i := 0; i < rs.Len(); i++ {
		n := rs.At(i).Name()
		if n == "" || n == "_" {
			if rs.Len() == 1 {
				n = "result"
			} else {
				n = fmt.Sprintf("result%d", i)
			}
		}
		names[i] = n
	}
	return names
}

func (vc *VC) bindResults(fn *ssa.Function, rets []Val) map[string]SV {
	b := map[string]SV{}
	rs := fn.Signature.Results()
	for i, n := range resultNames(fn) {
		if i < len(rets) {
			b[n] = SV{V: rets[i], T: rs.At(i).Type()}
			if rs.Len() == 1 {
				b["result"] = b[n]
			}
			b[fmt.Sprintf("result%d", i)] = b[n]
		}
	}
	return b
}

// reachableCells collects cells reachable from a value (pointers, slices, interface payloads).
func (vc *VC) reachableCells(st *State, v Val, seen map[*Cell]bool) {
	switch x := v.(type) {
	case PtrVal:
		if x.Cell != nil && !seen[x.Cell] {
			seen[x.Cell] = true
			vc.reachableCells(st, st.mem[x.Cell], seen)
		}
	case SliceVal:
		if x.Base.Cell != nil && !seen[x.Base.Cell] {
			seen[x.Base.Cell] = true
		}
	case IfaceVal:
		vc.reachableCells(st, x.V, seen)
	case StructVal:
		for _, f := range x.F {
			vc.reachableCells(st, f, seen)
		}
	case ArrVal:
		for _, f := range x.E {
			vc.reachableCells(st, f, seen)
		}
	case MapVal:
		if x.Cell != nil {
			seen[x.Cell] = true
		}
	case FuncVal:
		for _, b := range x.Bind {
			vc.reachableCells(st, b, seen)
		}
	}
}

func (vc *VC) callModular(fr *Frame, st *State, fn *ssa.Function, fc *FuncContract, args []Val, pos token.Pos) []Outcome {
	cf := &Frame{fn: fn, env: map[ssa.Value]Val{}, ghost: map[string]Val{}, depth: fr.depth + 1, parent: fr}
	for i, p := range fn.Params {
		cf.env[p] = args[i]
	}
	pre := st.Clone()
	cf.entrySt = pre
	site := vc.posOf(pos)
	for _, c := range fc.Clauses {
		if c.Kind != "requires" || c.Case != "" {
			continue
		}
		t := vc.evalSpecTerm(cf, st, c.Expr, nil)
		vc.addObligation(st, "pre", fnKey(fn)+"."+c.Label, site, t, c.Props)
		st.Assume(t)
	}
	var outs []Outcome
	// panics_when: fork a panicking outcome
	for _, c := range fc.Clauses {
		if c.Kind != "panics_when" || c.Case != "" {
			continue
		}
		t := vc.evalSpecTerm(cf, st, c.Expr, nil)
		ps := st.Clone()
		ps.Assume(t)
		if !ps.Infeasible() {
			outs = append(outs, Outcome{St: ps, Panic: true})
		}
		st.Assume(Not(t))
	}
	if !fc.Pure {
		seen := map[*Cell]bool{}
		for _, a := range args {
			vc.reachableCells(st, a, seen)
		}
		var cells []*Cell
		for c := range seen {
			cells = append(cells, c)
		}
		for i := range cells {
			for j := i + 1; j < len(cells); j++ {
				if cells[j].ID < cells[i].ID {
					cells[i], cells[j] = cells[j], cells[i]
				}
			}
		}
		for _, c := range cells {
			if _, ok := st.mem[c]; !ok {
				continue
			}
			vc.keepRefsOnHavoc++
			vc.havocCell(st, c)
			vc.keepRefsOnHavoc--
			vc.assume("A-FRAME")
			st.extWrites++
			if vc.writeLog != nil {
				vc.writeLog[c] = true
				if vc.modularWritten == nil {
					vc.modularWritten = map[*Cell]bool{}
				}
				vc.modularWritten[c] = true
			}
		}
	}
	rs := fn.Signature.Results()
	// pointer-typed results may be nil or point to a fresh object: one outcome per choice
	var ptrIdx []int
	if !fc.Opaque && !fc.Pure {
		for i := 0; i < rs.Len(); i++ {
			if _, ok := rs.At(i).Type().Underlying().(*types.Pointer); ok {
				ptrIdx = append(ptrIdx, i)
			}
		}
	}
	nvar := 1 << uint(len(ptrIdx))
	for variant := 0; variant < nvar; variant++ {
		vst := st
		if variant < nvar-1 {
			vst = st.Clone()
		}
		var rets []Val
		if fc.Opaque {
			rets = vc.ufCall(funcSym(fn), fn.Signature, args)
		} else if fc.Pure {
			// deterministic function: the same (syntactic) arguments give the same result
			// constants, so repeated evaluation in specs and bodies denotes one value
			key := funcSym(fn)
			for _, a := range args {
				if fv, ok := a.(FuncVal); ok {
					if fv.Fn != nil {
						key += "|" + funcSym(fv.Fn)
					} else {
						key += "|" + fv.Sym
					}
					continue
				}
				for _, t := range vc.flattenVal(a) {
					key += "|" + t.E
				}
			}
			if vc.pureCache == nil {
				vc.pureCache = map[string][]Val{}
			}
			if r, ok := vc.pureCache[key]; ok {
				rets = r
			} else {
				for i := 0; i < rs.Len(); i++ {
					rets = append(rets, vc.fresh(rs.At(i).Type(), fnKey(fn)+"."+resultNames(fn)[i], vst))
				}
				vc.pureCache[key] = rets
			}
		} else {
			for i := 0; i < rs.Len(); i++ {
				isNilVariant := false
				for k, pi := range ptrIdx {
					if pi == i && variant&(1<<uint(k)) != 0 {
						isNilVariant = true
					}
				}
				if isNilVariant {
					rets = append(rets, PtrVal{})
				} else {
					rets = append(rets, vc.fresh(rs.At(i).Type(), fnKey(fn)+"."+resultNames(fn)[i], vst))
				}
			}
		}
		bound := vc.bindResults(fn, rets)
		for _, c := range fc.Clauses {
			if c.Kind != "ensures" && c.Kind != "assumes" {
				continue
			}
			if c.Case != "" {
				continue // scenario-specific guarantees are not available to callers
			}
			if c.Kind == "assumes" {
				vc.assume("A-DET")
			}
			t := vc.evalSpecTerm(cf, vst, c.Expr, bound)
			vst.Fact(t)
		}
		if !vst.Infeasible() {
			outs = append(outs, Outcome{St: vst, Ret: rets})
		}
	}
	return outs
}

// ---- maps (scalar keys; values scalar or tuple-of-scalars via parallel arrays) -------------

type mapObj struct {
	Present Term
	Vals    []Term // one array per flattened value component
	KeyS    Sort
	Count   Term
	ValT    types.Type
	KeyT    types.Type
	Abstract bool // values are not tracked (non-scalar element type): look-ups yield arbitrary values
}

type rangeIter struct {
	M MapVal
	T *types.Map
}

func (vc *VC) flattenSorts(T types.Type) ([]Sort, bool) {
	if s, ok := vc.sortOf(T); ok {
		return []Sort{s}, true
	}
	switch t := T.Underlying().(type) {
	case *types.Struct:
		var res []Sort
		for i := 0; i < t.NumFields(); i++ {
			ss, ok := vc.flattenSorts(t.Field(i).Type())
			if !ok {
				return nil, false
			}
			res = append(res, ss...)
		}
		return res, true
	case *types.Array:
		if t.Len() <= smallArrayMax {
			var res []Sort
			for i := int64(0); i < t.Len(); i++ {
				ss, ok := vc.flattenSorts(t.Elem())
				if !ok {
					return nil, false
				}
				res = append(res, ss...)
			}
			return res, true
		}
	}
	return nil, false
}

func (vc *VC) flattenVal(v Val) []Term {
	switch x := v.(type) {
	case Term:
		return []Term{x}
	case StructVal:
		var r []Term
		for _, f := range x.F {
			r = append(r, vc.flattenVal(f)...)
		}
		return r
	case ArrVal:
		var r []Term
		for _, f := range x.E {
			r = append(r, vc.flattenVal(f)...)
		}
		return r
	case IfaceVal:
		if x.Dyn != nil {
			return vc.flattenVal(x.V)
		}
	case SymIface:
		return []Term{x.T}
	}
	panic(execError{fmt.Sprintf("flatten %T", v)})
}

func (vc *VC) unflatten(T types.Type, ts []Term, k *int) Val {
	if _, ok := vc.sortOf(T); ok {
		t := ts[*k]
		t.Signed = isSigned(T)
		*k++
		return t
	}
	switch t := T.Underlying().(type) {
	case *types.Struct:
		sv := StructVal{F: make([]Val, t.NumFields())}
		for i := range sv.F {
			sv.F[i] = vc.unflatten(t.Field(i).Type(), ts, k)
		}
		return sv
	case *types.Array:
		av := ArrVal{E: make([]Val, t.Len())}
		for i := range av.E {
			av.E[i] = vc.unflatten(t.Elem(), ts, k)
		}
		return av
	}
	panic(execError{"unflatten"})
}

// keyTerm packs a map key (scalar or small array of bytes) into one BV term.
func (vc *VC) keyTerm(v Val) Term {
	ts := vc.flattenVal(v)
	r := ts[0]
	for _, t := range ts[1:] {
		if r.S.K != KBV || t.S.K != KBV {
			panic(execError{"map key must be bit-vector encodable"})
		}
		r = Concat(r, t)
	}
	return r
}

func (vc *VC) makeMap(st *State, T types.Type, name string) Val {
	mt := T.Underlying().(*types.Map)
	ks, ok := vc.flattenSorts(mt.Key())
	if !ok {
		panic(execError{"unsupported map key type"})
	}
	bits := 0
	for _, s := range ks {
		if s.K != KBV {
			panic(execError{"map keys in math-int mode unsupported"})
		}
		bits += s.N
	}
	keyS := BV(bits)
	mo := mapObj{KeyS: keyS, Count: vc.idx(0), ValT: mt.Elem(), KeyT: mt.Key()}
	mo.Present = ConstArray(ArrSort(keyS, SBool), TFalse())
	if vs, ok := vc.flattenSorts(mt.Elem()); ok {
		zs := vc.flattenVal(vc.zero(mt.Elem()))
		for i, s := range vs {
			mo.Vals = append(mo.Vals, ConstArray(ArrSort(keyS, s), zs[i]))
		}
	} else {
		// non-scalar values (slices, maps, strings of unknown content): not tracked
		mo.Vals = nil
		mo.Abstract = true
	}
	c := vc.newCell("map."+name, "heap", nil)
	st.mem[c] = mo
	return MapVal{Cell: c}
}

func (vc *VC) mapUpdate(fr *Frame, st *State, x *ssa.MapUpdate) {
	mv := vc.val(fr, st, x.Map).(MapVal)
	if mv.Cell == nil {
		panic(execError{"assignment to nil map"})
	}
	mo := st.mem[mv.Cell].(mapObj)
	k := vc.keyTerm(vc.val(fr, st, x.Key))
	n := mo
	was := Select(mo.Present, k)
	n.Present = Store(mo.Present, k, TTrue())
	if !mo.Abstract {
		vs := vc.flattenVal(vc.val(fr, st, x.Value))
		n.Vals = make([]Term, len(mo.Vals))
		for i := range vs {
			n.Vals[i] = Store(mo.Vals[i], k, vs[i])
		}
	}
	n.Count = Ite(was, mo.Count, vc.iAdd(mo.Count, vc.idx(1)))
	st.mem[mv.Cell] = n
	if vc.writeLog != nil {
		vc.writeLog[mv.Cell] = true
	}
}

func (vc *VC) lookup(fr *Frame, st *State, x *ssa.Lookup) {
	if _, isMap := x.X.Type().Underlying().(*types.Map); !isMap {
		// string indexing
		s := vc.val(fr, st, x.X).(Term)
		i := vc.toIndex(vc.val(fr, st, x.Index).(Term), x.Index.Type())
		fr.env[x] = vc.ufApp("str_at", vc.intSort(8), s, i)
		return
	}
	mv := vc.val(fr, st, x.X).(MapVal)
	mt := x.X.Type().Underlying().(*types.Map)
	if mv.Cell == nil {
		z := vc.zero(mt.Elem())
		if x.CommaOk {
			fr.env[x] = TupleVal{z, TFalse()}
		} else {
			fr.env[x] = z
		}
		return
	}
	mo := st.mem[mv.Cell].(mapObj)
	k := vc.keyTerm(vc.val(fr, st, x.Index))
	if mo.Abstract {
		pres := Select(mo.Present, k)
		v := vc.abstractElem(st, mt.Elem(), x.Name())
		if x.CommaOk {
			fr.env[x] = TupleVal{v, pres}
		} else {
			fr.env[x] = v
		}
		return
	}
	var ts []Term
	for _, a := range mo.Vals {
		ts = append(ts, Select(a, k))
	}
	kk := 0
	v := vc.unflatten(mt.Elem(), ts, &kk)
	pres := Select(mo.Present, k)
	v = vc.iteVal(pres, v, vc.zero(mt.Elem()))
	if x.CommaOk {
		fr.env[x] = TupleVal{v, pres}
	} else {
		fr.env[x] = v
	}
}

// abstractElem: an arbitrary value of a map's element type (the element is not tracked).
func (vc *VC) abstractElem(st *State, T types.Type, name string) Val {
	if mt, ok := T.Underlying().(*types.Map); ok {
		return vc.makeMap(st, mt, name)
	}
	return vc.fresh(T, name+".elem", st)
}

// Range over a map (A-STD: the iteration visits keys of the map, in no particular order, and
// terminates): Next yields ok nondeterministically (false when the map is nil or empty), an
// arbitrary present key and its value.
func (vc *VC) rangeStart(fr *Frame, st *State, x *ssa.Range) {
	mt, ok := x.X.Type().Underlying().(*types.Map)
	if !ok {
		panic(execError{"range over a string is outside the supported subset"})
	}
	vc.assume("A-STD")
	fr.env[x] = rangeIter{M: vc.val(fr, st, x.X).(MapVal), T: mt}
}

func (vc *VC) rangeNext(fr *Frame, st *State, x *ssa.Next) {
	it, ok := vc.val(fr, st, x.Iter).(rangeIter)
	if !ok {
		panic(execError{"next on a non-map iterator"})
	}
	if it.M.Cell == nil {
		fr.env[x] = TupleVal{TFalse(), vc.zero(it.T.Key()), vc.zero(it.T.Elem())}
		return
	}
	mo := st.mem[it.M.Cell].(mapObj)
	okT := vc.freshTerm("rangeok", SBool)
	st.Fact(Implies(Eq(mo.Count, vc.idx(0)), Not(okT)))
	key := vc.fresh(it.T.Key(), x.Name()+".key", st)
	kt := vc.keyTerm(key)
	st.Fact(Implies(okT, Select(mo.Present, kt)))
	var v Val
	if mo.Abstract {
		v = vc.abstractElem(st, it.T.Elem(), x.Name())
	} else {
		var ts []Term
		for _, a := range mo.Vals {
			ts = append(ts, Select(a, kt))
		}
		k := 0
		v = vc.unflatten(it.T.Elem(), ts, &k)
	}
	fr.env[x] = TupleVal{okT, key, v}
}
