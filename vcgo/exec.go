package main

// Symbolic executor over go/ssa: path-wise forward execution, loops cut at invariants,
// modular calls through contracts, inlining of un-contracted repo functions.

import (
	"fmt"
	"go/token"
	"go/types"
	"math/big"
	"strings"

	"golang.org/x/tools/go/ssa"
)

type Outcome struct {
	St    *State
	Ret   []Val
	Panic bool
}

type deferred struct {
	fn   Val
	args []Val
	call *ssa.CallCommon
}

type Frame struct {
	fn       *ssa.Function
	env      map[ssa.Value]Val
	defers   []deferred
	visits   map[*ssa.BasicBlock]int
	depth    int
	parent   *Frame
	contract *FuncContract
	loopM0   map[*ssa.BasicBlock]Term // decreases measure at loop head
	loopIn   map[*ssa.BasicBlock]bool // currently inside the cut loop
	args     []Val
	entrySt  *State // for old()
	protected bool
	ghost    map[string]Val
	loopEntry map[int]*State // state at loop entry (before havoc), for entry(...) in invariants
	curLoop  int
	iterStart map[int]*State
	iterEnv  map[int]map[ssa.Value]Val
	iterPhis map[int]map[ssa.Value]Val
	autoLoops map[string]*LoopContract
}

func (f *Frame) Clone() *Frame {
	n := *f
	n.env = make(map[ssa.Value]Val, len(f.env))
	for k, v := range f.env {
		n.env[k] = v
	}
	n.defers = append([]deferred(nil), f.defers...)
	n.visits = make(map[*ssa.BasicBlock]int, len(f.visits))
	for k, v := range f.visits {
		n.visits[k] = v
	}
	n.loopM0 = make(map[*ssa.BasicBlock]Term, len(f.loopM0))
	for k, v := range f.loopM0 {
		n.loopM0[k] = v
	}
	n.loopIn = make(map[*ssa.BasicBlock]bool, len(f.loopIn))
	for k, v := range f.loopIn {
		n.loopIn[k] = v
	}
	n.ghost = cloneGhost(f.ghost)
	return &n
}

func (fr *Frame) isProtected() bool {
	for f := fr; f != nil; f = f.parent {
		if f.protected {
			return true
		}
	}
	return false
}

const maxDepth = 12

func (vc *VC) val(fr *Frame, st *State, v ssa.Value) Val {
	switch x := v.(type) {
	case *ssa.Const:
		return vc.constVal(x)
	case *ssa.Global:
		return PtrVal{Cell: vc.globalCell(st, x)}
	case *ssa.Function:
		return FuncVal{Fn: x}
	case *ssa.Builtin:
		return FuncVal{Sym: "builtin:" + x.Name()}
	}
	r, ok := fr.env[v]
	if !ok {
		panic(execError{fmt.Sprintf("undefined SSA value %s in %s", v.Name(), fr.fn.Name())})
	}
	return r
}

func (vc *VC) globalCell(st *State, g *ssa.Global) *Cell {
	c, ok := vc.globals[g]
	if !ok {
		elemT := g.Type().(*types.Pointer).Elem()
		c = vc.newCell(g.Pkg.Pkg.Name()+"."+g.Name(), "global", elemT)
		vc.globals[g] = c
	}
	if _, ok := st.mem[c]; !ok {
		elemT := g.Type().(*types.Pointer).Elem()
		if vc.eng.isRepoPkg(g.Pkg.Pkg) {
			if !vc.initDone[g.Pkg] && vc.initRunning != g.Pkg {
				panic(execError{"global " + g.Pkg.Pkg.Name() + "." + g.Name() + " read before its package was initialised in this state"})
			}
			st.mem[c] = vc.zeroGlobal(elemT, st, g)
		} else {
			st.mem[c] = vc.externalGlobal(g, elemT, st)
		}
	}
	return c
}

func (vc *VC) zeroGlobal(T types.Type, st *State, g *ssa.Global) Val {
	if isNamed(T, "sync", "Once") {
		return OnceObj{Done: TFalse()}
	}
	return vc.zero(T)
}

func (vc *VC) externalGlobal(g *ssa.Global, T types.Type, st *State) Val {
	full := g.Pkg.Pkg.Path() + "." + g.Name()
	switch full {
	case "io.EOF":
		return Term{S: SErr, E: "io_EOF", NonNil: true}
	case "time.UTC":
		c := vc.newCell("time.UTC", "ext", nil)
		st.mem[c] = vc.ufApp("time_UTC_obj", OpaqueSort("T_time.Location"))
		return PtrVal{Cell: c}
	}
	if isErrorType(T) {
		t := vc.ufApp("ext_"+full, SErr)
		t.NonNil = true
		return t
	}
	if stt, ok := T.Underlying().(*types.Struct); ok && stt.NumFields() == 0 {
		// stateless values such as encoding/binary.BigEndian
		return StructVal{}
	}
	panic(execError{"unsupported external global " + full})
}

func isNamed(T types.Type, pkg, name string) bool {
	n, ok := T.(*types.Named)
	if !ok {
		return false
	}
	return n.Obj().Pkg() != nil && n.Obj().Pkg().Path() == pkg && n.Obj().Name() == name
}

// callFunction executes fn on args from state st, returning all path outcomes.
func (vc *VC) callFunction(fn *ssa.Function, args []Val, bind []Val, st *State, parent *Frame) []Outcome {
	depth := 0
	if parent != nil {
		depth = parent.depth + 1
	}
	if depth > maxDepth {
		panic(execError{"call depth exceeded at " + fn.String()})
	}
	if len(fn.Blocks) == 0 {
		panic(execError{"no body for " + fn.String()})
	}
	fr := &Frame{fn: fn, env: map[ssa.Value]Val{}, visits: map[*ssa.BasicBlock]int{}, depth: depth, parent: parent,
		loopM0: map[*ssa.BasicBlock]Term{}, loopIn: map[*ssa.BasicBlock]bool{}, args: args, ghost: map[string]Val{}}
	fr.contract = vc.eng.contractFor(fn, vc.mode)
	if len(args) != len(fn.Params) {
		panic(execError{fmt.Sprintf("arity mismatch calling %s: %d vs %d", fn.String(), len(args), len(fn.Params))})
	}
	for i, p := range fn.Params {
		fr.env[p] = args[i]
	}
	for i, fv := range fn.FreeVars {
		fr.env[fv] = bind[i]
	}
	fr.protected = vc.eng.hasRecover(fn)
	fr.entrySt = st
	return vc.execFrom(fr, st, fn.Blocks[0], 0)
}

func (vc *VC) execFrom(fr *Frame, st *State, b *ssa.BasicBlock, idx int) []Outcome {
	for {
		if st.Infeasible() {
			dbgf("infeasible state in %s block %d", fr.fn.Name(), b.Index)
			return nil
		}
		if idx >= len(b.Instrs) {
			panic(execError{"fell off block"})
		}
		vc.steps++
		if vc.steps > 4000000 {
			panic(execError{"step budget exceeded"})
		}
		ins := b.Instrs[idx]
		switch x := ins.(type) {
		case *ssa.If:
			c := vc.val(fr, st, x.Cond).(Term)
			dbgf("if in %s block %d cond %s", fr.fn.Name(), b.Index, truncate(c.E, 80))
			if c.IsTrue() {
				return vc.jump(fr, st, b, b.Succs[0])
			}
			if c.IsFalse() {
				return vc.jump(fr, st, b, b.Succs[1])
			}
			// a condition already decided on this path is not forked again
			if known, val := st.decided(c); known {
				if val {
					return vc.jump(fr, st, b, b.Succs[0])
				}
				return vc.jump(fr, st, b, b.Succs[1])
			}
			fr2, st2 := fr.Clone(), st.Clone()
			st.Assume(c)
			st2.Assume(Not(c))
			out := vc.jump(fr, st, b, b.Succs[0])
			n1 := len(out)
			out = append(out, vc.jump(fr2, st2, b, b.Succs[1])...)
			dbgf("if in %s block %d cond %s: %d + %d outcomes", fr.fn.Name(), b.Index, truncate(c.E, 60), n1, len(out)-n1)
			return out
		case *ssa.Jump:
			return vc.jump(fr, st, b, b.Succs[0])
		case *ssa.Return:
			var rets []Val
			for _, r := range x.Results {
				rets = append(rets, vc.val(fr, st, r))
			}
			return []Outcome{{St: st, Ret: rets}}
		case *ssa.Panic:
			return vc.doPanic(fr, st)
		case *ssa.RunDefers:
			outs := vc.runDefers(fr, st, len(fr.defers)-1, false)
			var res []Outcome
			for _, o := range outs {
				if o.Panic {
					res = append(res, o)
					continue
				}
				f2 := fr.Clone()
				f2.defers = nil
				res = append(res, vc.execFrom(f2, o.St, b, idx+1)...)
			}
			return res
		case *ssa.Defer:
			d := deferred{call: &x.Call}
			d.fn, d.args = vc.evalCallee(fr, st, &x.Call)
			fr.defers = append(fr.defers, d)
			idx++
			continue
		case *ssa.Call:
			outs := vc.doCall(fr, st, &x.Call, x)
			if len(outs) == 1 && !outs[0].Panic {
				vc.bindCallResult(fr, x, outs[0].Ret)
				st = outs[0].St
				idx++
				continue
			}
			var res []Outcome
			for _, o := range outs {
				if o.Panic {
					res = append(res, vc.doPanic(fr.Clone(), o.St)...)
					continue
				}
				f2 := fr.Clone()
				vc.bindCallResult(f2, x, o.Ret)
				res = append(res, vc.execFrom(f2, o.St, b, idx+1)...)
			}
			return res
		default:
			forks := vc.step(fr, st, ins)
			if forks != nil {
				// forks: alternative (panicking) states
				var res []Outcome
				for _, ps := range forks {
					res = append(res, vc.doPanic(fr.Clone(), ps)...)
				}
				res = append(res, vc.execFrom(fr, st, b, idx+1)...)
				return res
			}
			idx++
		}
	}
}

func (vc *VC) bindCallResult(fr *Frame, x *ssa.Call, ret []Val) {
	sig := x.Call.Signature()
	n := sig.Results().Len()
	switch {
	case n == 0:
	case n == 1:
		if len(ret) != 1 {
			panic(execError{fmt.Sprintf("call %s returned %d values, want 1", x.String(), len(ret))})
		}
		fr.env[x] = ret[0]
	default:
		if len(ret) != n {
			panic(execError{fmt.Sprintf("call %s returned %d values, want %d", x.String(), len(ret), n)})
		}
		fr.env[x] = TupleVal(ret)
	}
}

// doPanic runs deferred calls of the frame; if one recovers, continues at fn.Recover.
func (vc *VC) doPanic(fr *Frame, st *State) []Outcome {
	st.panicking = true
	st.recovered = false
	outs := vc.runDefers(fr, st, len(fr.defers)-1, true)
	var res []Outcome
	for _, o := range outs {
		if o.Panic || !o.St.recovered {
			o.St.panicking = false
			res = append(res, Outcome{St: o.St, Panic: true})
			continue
		}
		o.St.panicking = false
		o.St.recovered = false
		f2 := fr.Clone()
		f2.defers = nil
		if fr.fn.Recover != nil {
			res = append(res, vc.execFrom(f2, o.St, fr.fn.Recover, 0)...)
		} else {
			var rets []Val
			rs := fr.fn.Signature.Results()
			for i := 0; i < rs.Len(); i++ {
				rets = append(rets, vc.zero(rs.At(i).Type()))
			}
			res = append(res, Outcome{St: o.St, Ret: rets})
		}
	}
	return res
}

func (vc *VC) runDefers(fr *Frame, st *State, i int, panicking bool) []Outcome {
	if i < 0 {
		return []Outcome{{St: st}}
	}
	d := fr.defers[i]
	outs := vc.invoke(fr, st, d.fn, d.args, d.call, nil)
	var res []Outcome
	for _, o := range outs {
		if o.Panic {
			res = append(res, o)
			continue
		}
		res = append(res, vc.runDefers(fr, o.St, i-1, panicking)...)
	}
	return res
}

// jump handles phis, loop cutting and unrolling bounds.
func (vc *VC) jump(fr *Frame, st *State, from, to *ssa.BasicBlock) []Outcome {
	dbgf("jump in %s: %d -> %d (dry=%d)", fr.fn.Name(), from.Index, to.Index, vc.dry)
	if vc.dry > 0 {
		for _, l := range vc.eng.dryStop {
			if l.Fn == fr.fn && !l.Body[to] {
				return nil
			}
		}
	}
	// evaluate phis simultaneously
	var phiVals []Val
	var phis []*ssa.Phi
	predIdx := -1
	for i, p := range to.Preds {
		if p == from {
			predIdx = i
			break
		}
	}
	for _, ins := range to.Instrs {
		phi, ok := ins.(*ssa.Phi)
		if !ok {
			break
		}
		phis = append(phis, phi)
		phiVals = append(phiVals, vc.val(fr, st, phi.Edges[predIdx]))
	}
	isBack := to.Dominates(from)
	li := vc.eng.loopInfo(fr.fn, to)
	if vc.dry > 0 && vc.houdini != nil && vc.houdini.header == to && vc.houdini.fn == fr.fn && isBack {
		for i, phi := range phis {
			fr.env[phi] = phiVals[i]
		}
		vc.houdini.onBack(fr, st)
		return nil
	}
	if vc.dry > 0 && isBack && li != nil && fr.loopIn[to] && vc.autoBusy {
		return nil // dry run of a loop body (while an automatic contract is being found) ends at its back edge
	}
	var lc *LoopContract
	if li != nil && fr.contract != nil {
		// the contract numbers the loops as they were when it was written (names.go: loopAlign)
		lc = fr.contract.Loops[vc.eng.oldLoopOrdinal(fr.fn, li.Ordinal)]
	}
	if li != nil && lc == nil {
		// a loop without a contract: try an automatically found one (autoinv.go); cached per frame and loop
		key := fmt.Sprintf("%p|%d", fr.fn, li.Ordinal)
		if fr.autoLoops == nil {
			fr.autoLoops = map[string]*LoopContract{}
		}
		if c, ok := fr.autoLoops[key]; ok {
			lc = c
		} else if c, ok := fr.autoLoops[key+"|dry"]; ok && vc.dry > 0 {
			lc = c
		} else if !isBack {
			for i, phi := range phis {
				fr.env[phi] = phiVals[i]
			}
			lc = vc.autoLoopContract(fr, st, li, to, phis, phiVals)
			if vc.dry == 0 || lc == nil {
				fr.autoLoops[key] = lc
			} else {
				fr.autoLoops[key+"|dry"] = lc
			}
		}
	}
	if li != nil && lc != nil {
		for i, phi := range phis {
			fr.env[phi] = phiVals[i]
		}
		iterName := fmt.Sprintf("iter%d", li.Ordinal)
		if isBack && fr.loopIn[to] {
			// preservation (the ghost iteration counter has advanced by one)
			if it, ok := fr.ghost[iterName].(Term); ok {
				nx := vc.iAdd(it, vc.idx(1))
				fr.ghost[iterName] = nx
				fr.ghost["iter"] = nx
			}
			fr.curLoop = li.Ordinal
			vc.checkLoopInv(fr, st, li, lc, "inv-pres")
			if vc.dry == 0 {
				for _, sc := range lc.Steps {
					t := vc.evalSpecTerm(fr, st, sc.Expr, nil)
					vc.addObligation(st, "step", fmt.Sprintf("loop%d.%s", li.Ordinal, sc.Label), vc.posOf(li.Header.Instrs[0].Pos()), t, sc.Props)
				}
			}
			if lc.Decreases != nil && vc.dry == 0 {
				m := vc.evalSpecTerm(fr, st, lc.Decreases, nil)
				m0 := fr.loopM0[to]
				signed := true
				goal := And(vc.iLt(m, m0, signed), vc.iLe(vc.likeIdx(m0, 0), m0, signed))
				vc.addObligation(st, "decreases", fmt.Sprintf("loop%d", li.Ordinal), vc.posOf(to.Instrs[0].Pos()), goal, lc.Props)
			}
			return nil
		}
		// entry: establish, havoc, assume
		if fr.loopEntry == nil {
			fr.loopEntry = map[int]*State{}
		} else {
			ne := make(map[int]*State, len(fr.loopEntry)+1)
			for k, v := range fr.loopEntry {
				ne[k] = v
			}
			fr.loopEntry = ne
		}
		fr.loopEntry[li.Ordinal] = st.Clone()
		fr.curLoop = li.Ordinal
		fr.ghost = cloneGhost(fr.ghost)
		fr.ghost[iterName] = vc.idx(0)
		fr.ghost["iter"] = vc.idx(0)
		vc.checkLoopInv(fr, st, li, lc, "inv-init")
		mod := vc.loopModified(fr, st, li, to, len(phis))
		headVals := map[ssa.Value]Val{}
		for _, phi := range phis {
			nm := phi.Comment
			if nm == "" {
				nm = phi.Name()
			}
			fr.env[phi] = vc.havocVal(fr.env[phi], phi.Type(), nm, st)
			headVals[phi] = fr.env[phi]
		}
		if fr.iterPhis == nil {
			fr.iterPhis = map[int]map[ssa.Value]Val{}
		} else {
			np := make(map[int]map[ssa.Value]Val, len(fr.iterPhis)+1)
			for k, v := range fr.iterPhis {
				np[k] = v
			}
			fr.iterPhis = np
		}
		fr.iterPhis[li.Ordinal] = headVals
		for _, c := range mod {
			vc.havocCell(st, c)
		}
		if len(mod) > 0 {
			// a cut loop has changed memory: the enclosing call is not effect-free (mergePure must not
			// fall back on the state before the call)
			st.extWrites++
		}
		it := vc.freshTerm(iterName, vc.intSort(64))
		it.Signed = true
		st.Fact(vc.iLe(vc.idx(0), it, true))
		st.Fact(vc.iLe(it, vc.idxBig(maxLenBound), true))
		fr.ghost[iterName] = it
		fr.ghost["iter"] = it
		for _, inv := range lc.Invariants {
			if inv.Case != "" && inv.Case != vc.curCase {
				continue
			}
			t := vc.evalSpecTerm(fr, st, inv.Expr, nil)
			st.Fact(t)
		}
		if lc.Decreases != nil {
			fr.loopM0[to] = vc.evalSpecTerm(fr, st, lc.Decreases, nil)
		}
		fr.loopIn[to] = true
		// snapshot of the state at the head of this (arbitrary) iteration, for prev(...)
		if fr.iterStart == nil {
			fr.iterStart = map[int]*State{}
		} else {
			ns := make(map[int]*State, len(fr.iterStart)+1)
			for k, v := range fr.iterStart {
				ns[k] = v
			}
			fr.iterStart = ns
		}
		fr.iterStart[li.Ordinal] = st.Clone()
		fr.iterEnv = map[int]map[ssa.Value]Val{}
		return vc.execFrom(fr, st, to, len(phis))
	}
	if li != nil {
		fr.visits[to]++
		if fr.visits[to] > vc.eng.unrollLimit {
			if vc.dry > 0 {
				return nil
			}
			panic(execError{fmt.Sprintf("loop %d in %s has no invariant and exceeds the unroll limit", li.Ordinal, fr.fn.Name())})
		}
	}
	for i, phi := range phis {
		fr.env[phi] = phiVals[i]
	}
	return vc.execFrom(fr, st, to, len(phis))
}

func cloneGhost(g map[string]Val) map[string]Val {
	n := make(map[string]Val, len(g)+2)
	for k, v := range g {
		n[k] = v
	}
	return n
}

func (vc *VC) checkLoopInv(fr *Frame, st *State, li *LoopInfo, lc *LoopContract, kind string) {
	if vc.dry > 0 {
		return
	}
	for _, inv := range lc.Invariants {
		if inv.Case != "" && inv.Case != vc.curCase {
			continue
		}
		t := vc.evalSpecTerm(fr, st, inv.Expr, nil)
		vc.addObligation(st, kind, fmt.Sprintf("loop%d.%s", li.Ordinal, inv.Label), vc.posOf(li.Header.Instrs[0].Pos()), t, inv.Props)
	}
}

// loopModified finds (by dry runs of the loop body) the cells written inside the loop.
func (vc *VC) loopModified(fr *Frame, st *State, li *LoopInfo, header *ssa.BasicBlock, nphis int) []*Cell {
	saved := vc.writeLog
	found := map[*Cell]bool{}
	for iter := 0; iter < 4; iter++ {
		vc.writeLog = map[*Cell]bool{}
		vc.dry++
		f2, s2 := fr.Clone(), st.Clone()
		f2.loopIn[header] = true
		f2.defers = nil
		for _, ins := range header.Instrs[:nphis] {
			phi := ins.(*ssa.Phi)
			f2.env[phi] = vc.havocVal(f2.env[phi], phi.Type(), "dry", s2)
		}
		for c := range found {
			vc.havocCell(s2, c)
		}
		s2.pc = nil
		func() {
			defer func() {
				if r := recover(); r != nil {
					if _, ok := r.(execError); ok {
						return
					}
					panic(r)
				}
			}()
			vc.dryBody(f2, s2, li, header, nphis)
		}()
		vc.dry--
		grew := false
		for c := range vc.writeLog {
			if _, live := st.mem[c]; !live {
				continue // allocated inside the loop body
			}
			if !found[c] {
				found[c] = true
				grew = true
			}
		}
		if !grew {
			break
		}
	}
	vc.writeLog = saved
	var res []*Cell
	for c := range found {
		res = append(res, c)
		if saved != nil {
			saved[c] = true
		}
	}
	// deterministic order
	for i := range res {
		for j := i + 1; j < len(res); j++ {
			if res[j].ID < res[i].ID {
				res[i], res[j] = res[j], res[i]
			}
		}
	}
	return res
}

// dryBody executes the loop body once; paths that leave the loop are cut by a marker.
func (vc *VC) dryBody(fr *Frame, st *State, li *LoopInfo, header *ssa.BasicBlock, nphis int) {
	old := vc.eng.dryStop
	vc.eng.dryStop = append(vc.eng.dryStop, li)
	defer func() { vc.eng.dryStop = old }()
	vc.execFrom(fr, st, header, nphis)
}

func (vc *VC) havocCell(st *State, c *Cell) {
	old := st.mem[c]
	if vc.modularWritten[c] && vc.keepRefsOnHavoc == 0 {
		// written through a contract-summarised call: scalar contents may change, references stay
		vc.keepRefsOnHavoc++
		defer func() { vc.keepRefsOnHavoc-- }()
		st.mem[c] = vc.havocVal(old, vc.cellType[c], c.Name, st)
		return
	}
	// struct cells: havoc only the field paths that were written (when known)
	if sv, ok := old.(StructVal); ok && vc.writePaths != nil {
		if paths, ok := vc.writePaths[c]; ok {
			if _, whole := paths[""]; !whole && len(paths) > 0 {
				cur := Val(sv)
				var keys []string
				for k := range paths {
					keys = append(keys, k)
				}
				sortStrings(keys)
				for _, k := range keys {
					path := paths[k]
					sub := vc.getPath(cur, path)
					T := vc.cellType[c]
					for _, pe := range path {
						if T == nil {
							break
						}
						if st2, ok := T.Underlying().(*types.Struct); ok {
							T = st2.Field(pe.Field).Type()
						} else {
							T = nil
						}
					}
					cur = vc.setPath(cur, path, vc.havocVal(sub, T, c.Name+k, st))
				}
				st.mem[c] = cur
				return
			}
		}
	}
	st.mem[c] = vc.havocVal(old, vc.cellType[c], c.Name, st)
}

func (vc *VC) havocVal(v Val, T types.Type, name string, st *State) Val {
	switch x := v.(type) {
	case Term:
		t := vc.freshTerm(name, x.S)
		t.Signed = x.Signed
		if T != nil {
			st.Fact(vc.typeRange(t, T))
		}
		return t
	case StructVal:
		r := StructVal{F: make([]Val, len(x.F))}
		var sT *types.Struct
		if T != nil {
			sT, _ = T.Underlying().(*types.Struct)
		}
		for i := range x.F {
			var ft types.Type
			fn := fmt.Sprintf("%s.%d", name, i)
			if sT != nil {
				ft = sT.Field(i).Type()
				fn = name + "." + sT.Field(i).Name()
			}
			r.F[i] = vc.havocVal(x.F[i], ft, fn, st)
		}
		return r
	case ArrVal:
		r := ArrVal{E: make([]Val, len(x.E))}
		var et types.Type
		if T != nil {
			if aT, ok := T.Underlying().(*types.Array); ok {
				et = aT.Elem()
			}
		}
		for i := range x.E {
			r.E[i] = vc.havocVal(x.E[i], et, fmt.Sprintf("%s.%d", name, i), st)
		}
		return r
	case Stream:
		n := x
		n.Pos = vc.freshTerm(name+".pos", x.Pos.S)
		n.Pos.Signed = true
		st.Fact(vc.iLe(x.Pos, n.Pos, true))
		st.Fact(vc.iLe(n.Pos, x.Len, true))
		return n
	case BuilderObj:
		l := vc.freshTerm(name+".len", x.Len.S)
		l.Signed = true
		st.Fact(vc.iLe(vc.likeIdx(l, 0), l, true))
		return BuilderObj{Len: l}
	case BufferObj:
		is := vc.intSort(64)
		l := vc.freshTerm(name+".len", is)
		l.Signed = true
		st.Fact(vc.iLe(vc.idx(0), l, true))
		ft := vc.freshTerm(name+".neverwritten", SBool)
		st.Fact(Implies(ft, Eq(l, vc.idx(0))))
		return BufferObj{Content: vc.freshTerm(name+".content", x.Content.S), Base: vc.idx(0), Len: l, FreshT: &ft}
	case GhostImg:
		n := GhostImg{Set: vc.freshTerm(name+".wasset", x.Set.S)}
		for k := range x.Ch {
			n.Ch[k] = vc.freshTerm(name+".lastset", x.Ch[k].S)
		}
		return n
	case OnceObj:
		// a Once only ever moves from not-done to done
		d := vc.freshTerm(name+".done", SBool)
		st.Fact(Implies(x.Done, d))
		return OnceObj{Done: d}
	case SliceArr:
		return SliceArr{IsNil: vc.freshTerm(name+".isnil", x.IsNil.S), Len: vc.freshTerm(name+".len", x.Len.S), Data: vc.freshTerm(name+".data", x.Data.S)}
	case SliceVal:
		if T != nil {
			if sT, ok := T.Underlying().(*types.Slice); ok {
				if _, ok := vc.sortOf(sT.Elem()); ok {
					return vc.fresh(T, name, st)
				}
				if inner, ok := sT.Elem().Underlying().(*types.Slice); ok {
					if _, ok := vc.sortOf(inner.Elem()); ok {
						// [][]byte: fresh backing store of slots
						c := vc.newCell(name+".slots", "heap", nil)
						sa := vc.zeroSliceArray(sT.Elem()).(SliceArr)
						st.mem[c] = vc.havocVal(sa, nil, name+".slots", st)
						ln := vc.freshTerm(name+".len", vc.intSort(64))
						ln.Signed = true
						isnil := vc.freshTerm(name+".isnil", SBool)
						st.Fact(vc.iLe(vc.idx(0), ln, true))
						st.Fact(vc.iLe(ln, vc.idxBig(maxLenBound), true))
						st.Fact(Implies(isnil, Eq(ln, vc.idx(0))))
						return SliceVal{Base: PtrVal{Cell: c}, Off: vc.idx(0), Len: ln, Cap: ln, IsNil: isnil}
					}
				}
			}
		}
		panic(execError{"havoc of slice-valued location " + name + " is outside the supported subset"})
	case mapObj:
		n := x
		n.Present = vc.freshTerm(name+".present", x.Present.S)
		n.Vals = make([]Term, len(x.Vals))
		for i := range x.Vals {
			n.Vals[i] = vc.freshTerm(name+".vals", x.Vals[i].S)
		}
		n.Count = vc.freshTerm(name+".count", x.Count.S)
		return n
	case PtrVal, FuncVal, IfaceVal, MapVal, SymIface:
		if vc.keepRefsOnHavoc > 0 {
			return v // frame assumption of modular calls: reference-valued fields are not reassigned
		}
		panic(execError{fmt.Sprintf("havoc of %T-valued location %s is outside the supported subset", v, name)})
	}
	panic(execError{fmt.Sprintf("havoc: unsupported %T (%s)", v, name)})
}

// safe handles an implicit panic condition. It returns a forked panicking state when the
// enclosing call chain recovers panics (so the recovered behaviour is explored),
// otherwise it emits a safety obligation. In both cases st continues under `ok`.
func (vc *VC) safe(fr *Frame, st *State, ok Term, kind string, pos token.Pos) *State {
	if ok.IsTrue() {
		return nil
	}
	if fr.isProtected() {
		ps := st.Clone()
		ps.Assume(Not(ok))
		st.Assume(ok)
		if ps.Infeasible() {
			return nil
		}
		return ps
	}
	vc.addObligation(st, kind, "safe", vc.posOf(pos), ok, vc.curProps)
	st.Assume(ok)
	return nil
}

// step executes a non-control instruction. It may return forked panicking states.
func (vc *VC) step(fr *Frame, st *State, ins ssa.Instruction) (forks []*State) {
	addFork := func(ps *State) {
		if ps != nil {
			forks = append(forks, ps)
		}
	}
	switch x := ins.(type) {
	case *ssa.DebugRef:
	case *ssa.Alloc:
		elemT := x.Type().(*types.Pointer).Elem()
		kind := "local"
		if x.Heap {
			kind = "heap"
		}
		nm := x.Comment
		if nm == "" {
			nm = x.Name()
		}
		c := vc.newCell(fr.fn.Name()+"."+nm, kind, elemT)
		st.mem[c] = vc.zero(elemT)
		fr.env[x] = PtrVal{Cell: c}
	case *ssa.Store:
		p := vc.val(fr, st, x.Addr).(PtrVal)
		addFork(vc.safe(fr, st, TBool(p.Cell != nil), "nil", x.Pos()))
		if p.Cell == nil {
			st.Assume(TFalse())
			return
		}
		vc.store(st, p, vc.val(fr, st, x.Val))
	case *ssa.UnOp:
		forks = vc.unop(fr, st, x)
	case *ssa.BinOp:
		a, b := vc.val(fr, st, x.X), vc.val(fr, st, x.Y)
		r, okc := vc.binop(x.Op, a, b, x.X.Type(), x.Y.Type())
		if !okc.IsTrue() {
			addFork(vc.safe(fr, st, okc, "div", x.Pos()))
		}
		if t, ok := r.(Term); ok {
			r = vc.define(x.Name(), t)
		}
		fr.env[x] = r
	case *ssa.Convert:
		fr.env[x] = vc.convert(vc.val(fr, st, x.X), x.X.Type(), x.Type(), st)
	case *ssa.ChangeType:
		fr.env[x] = vc.val(fr, st, x.X)
	case *ssa.ChangeInterface:
		fr.env[x] = vc.val(fr, st, x.X)
	case *ssa.MakeInterface:
		v := vc.val(fr, st, x.X)
		if isErrorType(x.Type()) {
			// a concrete error value: non-nil opaque
			t := vc.freshTerm("errval", SErr)
			t.NonNil = true
			st.Assume(Not(Eq(t, Term{S: SErr, E: "err_nil"})))
			fr.env[x] = t
		} else {
			fr.env[x] = IfaceVal{Dyn: x.X.Type(), V: v}
		}
	case *ssa.MakeClosure:
		var bind []Val
		for _, b := range x.Bindings {
			bind = append(bind, vc.val(fr, st, b))
		}
		fr.env[x] = FuncVal{Fn: x.Fn.(*ssa.Function), Bind: bind}
	case *ssa.FieldAddr:
		p := vc.val(fr, st, x.X).(PtrVal)
		addFork(vc.safe(fr, st, TBool(p.Cell != nil), "nil", x.Pos()))
		if p.Cell == nil {
			st.Assume(TFalse())
			fr.env[x] = p
			return
		}
		fr.env[x] = p.Extend(PathElem{Field: x.Field})
	case *ssa.Field:
		sv := vc.val(fr, st, x.X).(StructVal)
		fr.env[x] = sv.F[x.Field]
	case *ssa.IndexAddr:
		forks = vc.indexAddr(fr, st, x)
	case *ssa.Index:
		a := vc.val(fr, st, x.X)
		i := vc.toIndex(vc.val(fr, st, x.Index).(Term), x.Index.Type())
		n := arrayLen(x.X.Type())
		if n >= 0 {
			okc := And(vc.iLe(vc.idx(0), i, true), vc.iLt(i, vc.idx(n), true))
			addFork(vc.safe(fr, st, okc, "bounds", x.Pos()))
		}
		switch av := a.(type) {
		case ArrVal:
			fr.env[x] = vc.arrGet(av, i)
		case Term:
			fr.env[x] = Select(av, i)
		default:
			panic(execError{fmt.Sprintf("Index on %T", a)})
		}
	case *ssa.Slice:
		forks = vc.sliceOp(fr, st, x)
	case *ssa.MakeSlice:
		forks = vc.makeSlice(fr, st, x)
	case *ssa.Extract:
		tv := vc.val(fr, st, x.Tuple).(TupleVal)
		fr.env[x] = tv[x.Index]
	case *ssa.TypeAssert:
		forks = vc.typeAssert(fr, st, x)
	case *ssa.MakeMap:
		if x.Reserve != nil {
			// make(map[K]V, hint): the runtime allocates buckets for hint entries up front
			if n, ok := vc.val(fr, st, x.Reserve).(Term); ok {
				n = vc.toIndex(n, x.Reserve.Type())
				vc.allocObligation(fr, st, n, x.Type().Underlying().(*types.Map).Elem(), x.Pos())
			}
		}
		fr.env[x] = vc.makeMap(st, x.Type(), x.Name())
	case *ssa.MapUpdate:
		vc.mapUpdate(fr, st, x)
	case *ssa.Lookup:
		vc.lookup(fr, st, x)
	case *ssa.Range:
		vc.rangeStart(fr, st, x)
	case *ssa.Next:
		vc.rangeNext(fr, st, x)
	default:
		panic(execError{fmt.Sprintf("unsupported instruction %T: %s", ins, ins.String())})
	}
	return
}

func arrayLen(T types.Type) int64 {
	switch t := T.Underlying().(type) {
	case *types.Array:
		return t.Len()
	case *types.Pointer:
		if a, ok := t.Elem().Underlying().(*types.Array); ok {
			return a.Len()
		}
	}
	return -1
}

func (vc *VC) unop(fr *Frame, st *State, x *ssa.UnOp) (forks []*State) {
	v := vc.val(fr, st, x.X)
	switch x.Op {
	case token.MUL: // load
		p := v.(PtrVal)
		if ps := vc.safe(fr, st, TBool(p.Cell != nil), "nil", x.Pos()); ps != nil {
			forks = append(forks, ps)
		}
		if p.Cell == nil {
			st.Assume(TFalse())
			fr.env[x] = vc.zero(x.Type())
			return
		}
		fr.env[x] = vc.load(st, p)
	case token.NOT:
		fr.env[x] = Not(v.(Term))
	case token.SUB:
		t := v.(Term)
		switch t.S.K {
		case KBV:
			fr.env[x] = BVNeg(t)
		case KFP:
			fr.env[x] = FPNeg(t)
		default:
			fr.env[x] = NumNeg(t)
		}
	case token.XOR:
		t := v.(Term)
		if t.S.K != KBV {
			panic(execError{"bitwise complement in math-int mode"})
		}
		fr.env[x] = BVNot(t)
	default:
		panic(execError{"unsupported unary op " + x.Op.String()})
	}
	return
}

func floatBits(T types.Type) int {
	if b, ok := T.Underlying().(*types.Basic); ok {
		switch b.Kind() {
		case types.Float32:
			return 32
		case types.Float64, types.UntypedFloat:
			return 64
		}
	}
	return 0
}

func (vc *VC) rnd(t Term, bits int) Term {
	if !vc.mode.Rnd {
		return t
	}
	if t.R != nil {
		// exactly representable constants are fixed points of rounding
		if bits == 32 {
			f, exact := t.R.Float32()
			_ = f
			if exact {
				return t
			}
		} else {
			_, exact := t.R.Float64()
			if exact {
				return t
			}
		}
	}
	return Term{S: SReal, E: fmt.Sprintf("(rnd%d %s)", bits, t.E)}
}

func (vc *VC) fBin(op token.Token, a, b Term, bits int) Term {
	if a.S.K == KFP {
		switch op {
		case token.ADD:
			return FPBin("fp.add", a, b)
		case token.SUB:
			return FPBin("fp.sub", a, b)
		case token.MUL:
			return FPBin("fp.mul", a, b)
		case token.QUO:
			return FPBin("fp.div", a, b)
		}
	} else {
		switch op {
		case token.ADD:
			return vc.rnd(NumAdd(a, b), bits)
		case token.SUB:
			return vc.rnd(NumSub(a, b), bits)
		case token.MUL:
			return vc.rnd(NumMul(a, b), bits)
		case token.QUO:
			return vc.rnd(vc.realDiv(a, b), bits)
		}
	}
	panic(execError{"unsupported float op " + op.String()})
}

func (vc *VC) fCmp(op token.Token, a, b Term) Term {
	if a.S.K == KFP {
		switch op {
		case token.EQL:
			return FPCmp("fp.eq", a, b)
		case token.NEQ:
			return Not(FPCmp("fp.eq", a, b))
		case token.LSS:
			return FPCmp("fp.lt", a, b)
		case token.LEQ:
			return FPCmp("fp.leq", a, b)
		case token.GTR:
			return FPCmp("fp.gt", a, b)
		case token.GEQ:
			return FPCmp("fp.geq", a, b)
		}
	} else {
		switch op {
		case token.EQL:
			return Eq(a, b)
		case token.NEQ:
			return Not(Eq(a, b))
		case token.LSS:
			return NumCmp("<", a, b)
		case token.LEQ:
			return NumCmp("<=", a, b)
		case token.GTR:
			return NumCmp(">", a, b)
		case token.GEQ:
			return NumCmp(">=", a, b)
		}
	}
	panic(execError{"unsupported float comparison " + op.String()})
}

func pow2(k int64) *big.Int { return new(big.Int).Lsh(big.NewInt(1), uint(k)) }

// binop returns the result and a safety condition (division by zero).
func (vc *VC) binop(op token.Token, av, bv Val, aT, bT types.Type) (Val, Term) {
	okc := TTrue()
	switch op {
	case token.EQL:
		return vc.eqVal(av, bv), okc
	case token.NEQ:
		return Not(vc.eqVal(av, bv)), okc
	}
	a, aok := av.(Term)
	b, bok := bv.(Term)
	if !aok || !bok {
		panic(execError{fmt.Sprintf("binop %s on %T, %T", op, av, bv)})
	}
	if fb := floatBits(aT); fb != 0 {
		switch op {
		case token.LSS, token.LEQ, token.GTR, token.GEQ:
			return vc.fCmp(op, a, b), okc
		}
		return vc.fBin(op, a, b, fb), okc
	}
	if a.S.K == KOpaque && a.S.Name == "Str" {
		if op == token.ADD {
			return vc.ufApp("str_concat", SStr, a, b), okc
		}
		panic(execError{"unsupported string op " + op.String()})
	}
	signed := isSigned(aT)
	if a.S.K == KInt {
		switch op {
		case token.ADD:
			return vc.wrapMath(NumAdd(a, b), aT), okc
		case token.SUB:
			return vc.wrapMath(NumSub(a, b), aT), okc
		case token.MUL:
			return vc.wrapMath(NumMul(a, b), aT), okc
		case token.QUO:
			okc = Not(Eq(b, IntConst(big.NewInt(0))))
			return truncDiv(a, b), okc
		case token.REM:
			okc = Not(Eq(b, IntConst(big.NewInt(0))))
			q := truncDiv(a, b)
			return NumSub(a, NumMul(q, b)), okc
		case token.LSS:
			return NumCmp("<", a, b), okc
		case token.LEQ:
			return NumCmp("<=", a, b), okc
		case token.GTR:
			return NumCmp(">", a, b), okc
		case token.GEQ:
			return NumCmp(">=", a, b), okc
		case token.SHL:
			if b.C != nil {
				return vc.wrapMath(NumMul(a, IntConst(pow2(b.C.Int64()))), aT), okc
			}
		case token.SHR:
			if b.C != nil {
				return floorDiv(a, IntConst(pow2(b.C.Int64()))), okc
			}
		case token.AND:
			if b.C != nil {
				m := new(big.Int).Add(b.C, big.NewInt(1))
				if m.BitLen() > 0 && new(big.Int).And(m, b.C).Sign() == 0 && !signed {
					return Term{S: SInt, E: app("mod", a, IntConst(m))}, okc
				}
			}
		}
		panic(execError{"unsupported integer op in math-int mode: " + op.String()})
	}
	switch op {
	case token.ADD:
		return BVAdd(a, b), okc
	case token.SUB:
		return BVSub(a, b), okc
	case token.MUL:
		return BVMul(a, b), okc
	case token.QUO:
		okc = Not(Eq(b, BVConstI(0, b.S.N, signed)))
		return BVDiv(a, b, signed), okc
	case token.REM:
		okc = Not(Eq(b, BVConstI(0, b.S.N, signed)))
		return BVRem(a, b, signed), okc
	case token.AND:
		return BVAnd(a, b), okc
	case token.OR:
		return BVOr(a, b), okc
	case token.XOR:
		return BVXor(a, b), okc
	case token.AND_NOT:
		return BVAndNot(a, b), okc
	case token.SHL:
		if isSigned(bT) {
			okc = BVSle(BVConstI(0, b.S.N, true), b)
		}
		return BVShl(a, b), okc
	case token.SHR:
		if isSigned(bT) {
			okc = BVSle(BVConstI(0, b.S.N, true), b)
		}
		return BVShr(a, b, signed), okc
	case token.LSS:
		return BVLt(a, b, signed), okc
	case token.LEQ:
		return BVLe(a, b, signed), okc
	case token.GTR:
		return BVLt(b, a, signed), okc
	case token.GEQ:
		return BVLe(b, a, signed), okc
	}
	panic(execError{"unsupported binary op " + op.String()})
}

func floorDiv(a, b Term) Term {
	if a.C != nil && b.C != nil && b.C.Sign() > 0 {
		q := new(big.Int)
		m := new(big.Int)
		q.DivMod(a.C, b.C, m)
		return IntConst(q)
	}
	return Term{S: SInt, E: app("div", a, b)}
}

// truncDiv: Go integer division truncates toward zero.
func truncDiv(a, b Term) Term {
	if a.C != nil && b.C != nil && b.C.Sign() != 0 {
		return IntConst(new(big.Int).Quo(a.C, b.C))
	}
	zero := IntConst(big.NewInt(0))
	d := Term{S: SInt, E: app("div", a, b)}
	// SMT div is floor for b>0, ceil for b<0 (Euclidean); adjust when a<0 and remainder != 0
	m := Term{S: SInt, E: app("mod", a, b)}
	adj := Ite(NumCmp(">", b, zero), NumAdd(d, IntConst(big.NewInt(1))), NumSub(d, IntConst(big.NewInt(1))))
	return Ite(And(NumCmp("<", a, zero), Not(Eq(m, zero))), adj, d)
}

// wrapMath applies Go's wrap-around for the type in math-int mode.
func (vc *VC) wrapMath(t Term, T types.Type) Term {
	b, ok := T.Underlying().(*types.Basic)
	if !ok {
		return t
	}
	bits, signed, isInt := basicBits(b)
	if !isInt {
		return t
	}
	if bits == 64 {
		// int/int64/uint64 arithmetic treated as mathematical (A-MATHINT): documented
		vc.assume("A-MATHINT")
		return t
	}
	if t.C != nil {
		v := bvNorm(t.C, bits)
		if signed {
			v = bvSignedVal(v, bits)
		}
		return IntConst(v)
	}
	m := IntConst(pow2(int64(bits)))
	if !signed {
		return Term{S: SInt, E: app("mod", t, m)}
	}
	h := IntConst(pow2(int64(bits - 1)))
	return NumSub(Term{S: SInt, E: app("mod", NumAdd(t, h), m)}, h)
}

func (vc *VC) convert(v Val, from, to types.Type, st *State) Val {
	fu, tu := from.Underlying(), to.Underlying()
	fb, fok := fu.(*types.Basic)
	tb, tok := tu.(*types.Basic)
	if fok && tok {
		t := v.(Term)
		fbits, fsigned, fint := basicBits(fb)
		tbits, tsigned, tint := basicBits(tb)
		ffl, tfl := floatBits(from), floatBits(to)
		switch {
		case fint && tint:
			if t.S.K == KInt {
				return vc.convMathInt(t, fbits, fsigned, tbits, tsigned)
			}
			return BVResize(t, tbits, fsigned, tsigned)
		case fint && tfl != 0:
			if t.S.K == KInt {
				return vc.rnd(Int2Real(t), tfl)
			}
			if vc.mode.FloatReal {
				return vc.rnd(Int2Real(BV2Int(t, fsigned)), tfl)
			}
			return BVToFP(t, fsigned, vc.floatSort(tfl))
		case ffl != 0 && tfl != 0:
			if t.S.K == KFP {
				return FPToFP(t, vc.floatSort(tfl))
			}
			if tfl < ffl {
				return vc.rnd(t, tfl)
			}
			return t
		case ffl != 0 && tint:
			return vc.floatToInt(t, tbits, tsigned, st)
		case fb.Kind() == types.String && tb.Kind() == types.String:
			return t
		case fint && tb.Kind() == types.String:
			return vc.ufApp("string_of_rune", SStr, vc.scalarForUF(t))
		}
	}
	// string(bytes) / []byte(string) / string(runes)
	if _, ok := fu.(*types.Slice); ok && tok && tb.Kind() == types.String {
		sv := v.(SliceVal)
		if sv.Base.Cell == nil {
			return vc.strLit("")
		}
		arr, ok := vc.load(st, sv.Base).(Term)
		if !ok {
			// bytes of a small array: the text is not modelled (only used in messages)
			return vc.freshTerm("str", SStr)
		}
		return vc.ufApp("string_of_"+sanitize(arr.S.Elem.String()), SStr, arr, sv.Off, sv.Len)
	}
	if fok && fb.Kind() == types.String {
		if sl, ok := tu.(*types.Slice); ok {
			es, _ := vc.sortOf(sl.Elem())
			t := v.(Term)
			for lit, lt := range vc.strLits {
				if lt.E == t.E && !vc.mode.IntMath {
					// bytes of a string literal: concrete content and length
					arr := ConstArray(ArrSort(vc.intSort(64), es), BVConstI(0, 8, false))
					for k := 0; k < len(lit); k++ {
						arr = Store(arr, vc.idx(int64(k)), BVConstI(int64(lit[k]), 8, false))
					}
					c := vc.newCell("literal", "heap", nil)
					st.mem[c] = arr
					n := vc.idx(int64(len(lit)))
					return SliceVal{Base: PtrVal{Cell: c}, Off: vc.idx(0), Len: n, Cap: n, IsNil: TFalse()}
				}
			}
			c := vc.newCell("bytesof", "heap", nil)
			st.mem[c] = vc.ufApp("bytes_of_string", ArrSort(vc.intSort(64), es), t)
			ln := vc.ufApp("len_of_string", vc.intSort(64), t)
			ln.Signed = true
			st.Assume(vc.iLe(vc.idx(0), ln, true))
			return SliceVal{Base: PtrVal{Cell: c}, Off: vc.idx(0), Len: ln, Cap: ln, IsNil: TFalse()}
		}
	}
	if types.Identical(fu, tu) {
		return v
	}
	panic(execError{fmt.Sprintf("unsupported conversion %v -> %v", from, to)})
}

func (vc *VC) scalarForUF(t Term) Term { return t }

func (vc *VC) convMathInt(t Term, fbits int, fsigned bool, tbits int, tsigned bool) Term {
	// identity when the source range fits the destination
	if fsigned == tsigned && tbits >= fbits {
		return t
	}
	if !fsigned && tsigned && tbits > fbits {
		return t
	}
	if tbits == 64 {
		vc.assume("A-MATHINT")
		return t
	}
	m := IntConst(pow2(int64(tbits)))
	if !tsigned {
		if t.C != nil {
			return IntConst(bvNorm(t.C, tbits))
		}
		return Term{S: SInt, E: app("mod", t, m)}
	}
	h := IntConst(pow2(int64(tbits - 1)))
	return NumSub(Term{S: SInt, E: app("mod", NumAdd(t, h), m)}, h)
}

// floatToInt models the amd64 code the gc compiler emits (A-CONV).
func (vc *VC) floatToInt(t Term, tbits int, tsigned bool, st *State) Term {
	if t.S.K == KReal {
		zero := RealConst(new(big.Rat))
		tr := Ite(NumCmp(">=", t, zero), Term{S: SInt, E: app("to_int", t)}, NumNeg(Term{S: SInt, E: app("to_int", NumNeg(t))}))
		if vc.mode.IntMath {
			return vc.convMathInt(tr, 128, true, tbits, tsigned)
		}
		return Term{S: BV(tbits), E: fmt.Sprintf("((_ int2bv %d) %s)", tbits, tr.E), Signed: tsigned}
	}
	vc.assume("A-CONV")
	// route through the signed machine width the compiler uses
	w := 32
	if tbits > 16 && !(tbits == 32 && tsigned) {
		w = 64
	}
	if tbits == 64 && !tsigned {
		// uint64 conversion uses a branchy sequence; not needed by prism: leave unconstrained
		r := vc.freshTerm("f2u64", BV(64))
		return r
	}
	var lo, hi Term
	mk := func(f float64) Term {
		if t.S.N == 32 {
			return FP32Const(float32(f))
		}
		return FP64Const(f)
	}
	if w == 32 {
		lo, hi = mk(-2147483648.0), mk(2147483648.0)
	} else {
		lo, hi = mk(-9223372036854775808.0), mk(9223372036854775808.0)
	}
	// trunc(x) in range  <=>  x > lo-1 && x < hi ; lo-1 is not representable in float32 at
	// these magnitudes, so use x >= lo (exact for float32; for float64/32-bit use lo-1)
	var inRange Term
	if t.S.N == 64 && w == 32 {
		inRange = And(FPCmp("fp.gt", t, FP64Const(-2147483649.0)), FPCmp("fp.lt", t, hi))
	} else {
		inRange = And(FPCmp("fp.geq", t, lo), FPCmp("fp.lt", t, hi))
	}
	conv := Term{S: BV(w), E: fmt.Sprintf("((_ fp.to_sbv %d) RTZ %s)", w, t.E)}
	indef := BVConst(pow2(int64(w-1)), w, true)
	full := Ite(inRange, conv, indef)
	r := Extract(full, tbits-1, 0)
	r.Signed = tsigned
	return r
}

func (vc *VC) indexAddr(fr *Frame, st *State, x *ssa.IndexAddr) (forks []*State) {
	base := vc.val(fr, st, x.X)
	i := vc.toIndex(vc.val(fr, st, x.Index).(Term), x.Index.Type())
	switch b := base.(type) {
	case PtrVal: // pointer to array
		if ps := vc.safe(fr, st, TBool(b.Cell != nil), "nil", x.Pos()); ps != nil {
			forks = append(forks, ps)
		}
		n := arrayLen(x.X.Type())
		okc := And(vc.iLe(vc.idx(0), i, true), vc.iLt(i, vc.idx(n), true))
		if ps := vc.safe(fr, st, okc, "bounds", x.Pos()); ps != nil {
			forks = append(forks, ps)
		}
		ii := i
		fr.env[x] = b.Extend(PathElem{Field: -1, Idx: &ii})
	case SliceVal:
		okc := And(vc.iLe(vc.idx(0), i, true), vc.iLt(i, b.Len, true))
		if ps := vc.safe(fr, st, okc, "bounds", x.Pos()); ps != nil {
			forks = append(forks, ps)
		}
		if b.Base.Cell == nil {
			// nil slice: any index is out of range
			st.Assume(TFalse())
			fr.env[x] = PtrVal{}
			return
		}
		ii := vc.iAdd(b.Off, i)
		fr.env[x] = b.Base.Extend(PathElem{Field: -1, Idx: &ii})
	default:
		panic(execError{fmt.Sprintf("IndexAddr on %T", base)})
	}
	return
}

func (vc *VC) sliceOp(fr *Frame, st *State, x *ssa.Slice) (forks []*State) {
	base := vc.val(fr, st, x.X)
	var lo, hi Term
	hasLo, hasHi := x.Low != nil, x.High != nil
	if hasLo {
		lo = vc.toIndex(vc.val(fr, st, x.Low).(Term), x.Low.Type())
	} else {
		lo = vc.idx(0)
	}
	var maxT *Term
	if x.Max != nil {
		m := vc.toIndex(vc.val(fr, st, x.Max).(Term), x.Max.Type())
		maxT = &m
	}
	switch b := base.(type) {
	case PtrVal: // pointer to array
		n := arrayLen(x.X.Type())
		if hasHi {
			hi = vc.toIndex(vc.val(fr, st, x.High).(Term), x.High.Type())
		} else {
			hi = vc.idx(n)
		}
		okc := And(vc.iLe(vc.idx(0), lo, true), vc.iLe(lo, hi, true), vc.iLe(hi, vc.idx(n), true))
		if ps := vc.safe(fr, st, okc, "bounds", x.Pos()); ps != nil {
			forks = append(forks, ps)
		}
		fr.env[x] = SliceVal{Base: b, Off: lo, Len: vc.iSub(hi, lo), Cap: vc.iSub(vc.idx(n), lo), IsNil: TFalse()}
	case SliceVal:
		if hasHi {
			hi = vc.toIndex(vc.val(fr, st, x.High).(Term), x.High.Type())
		} else {
			hi = b.Len
		}
		capLimit := b.Cap
		newCap := vc.iSub(b.Cap, lo)
		okc := And(vc.iLe(vc.idx(0), lo, true), vc.iLe(lo, hi, true), vc.iLe(hi, b.Cap, true))
		if maxT != nil {
			okc = And(vc.iLe(vc.idx(0), lo, true), vc.iLe(lo, hi, true), vc.iLe(hi, *maxT, true), vc.iLe(*maxT, capLimit, true))
			newCap = vc.iSub(*maxT, lo)
		}
		if ps := vc.safe(fr, st, okc, "bounds", x.Pos()); ps != nil {
			forks = append(forks, ps)
		}
		fr.env[x] = SliceVal{Base: b.Base, Off: vc.iAdd(b.Off, lo), Len: vc.iSub(hi, lo), Cap: newCap, IsNil: b.IsNil}
	case Term:
		// string slicing
		if b.S.Eq(SStr) {
			if !hasHi {
				hi = vc.ufApp("len_of_string", vc.intSort(64), b)
			} else {
				hi = vc.toIndex(vc.val(fr, st, x.High).(Term), x.High.Type())
			}
			fr.env[x] = vc.ufApp("substr", SStr, b, lo, hi)
			return
		}
		panic(execError{"Slice on term"})
	default:
		panic(execError{fmt.Sprintf("Slice on %T", base)})
	}
	return
}

func (vc *VC) makeSlice(fr *Frame, st *State, x *ssa.MakeSlice) (forks []*State) {
	ln := vc.toIndex(vc.val(fr, st, x.Len).(Term), x.Len.Type())
	cp := vc.toIndex(vc.val(fr, st, x.Cap).(Term), x.Cap.Type())
	elemT := x.Type().Underlying().(*types.Slice).Elem()
	okc := And(vc.iLe(vc.idx(0), ln, true), vc.iLe(ln, cp, true))
	if ps := vc.safe(fr, st, okc, "makeslice", x.Pos()); ps != nil {
		forks = append(forks, ps)
	}
	// allocation-size obligation
	vc.allocObligation(fr, st, ln, elemT, x.Pos())
	c := vc.newCell(fr.fn.Name()+"."+x.Name()+".arr", "heap", nil)
	es, ok := vc.sortOf(elemT)
	if ok {
		st.mem[c] = ConstArray(ArrSort(vc.intSort(64), es), vc.zero(elemT).(Term))
	} else {
		st.mem[c] = vc.zeroSliceArray(elemT)
	}
	fr.env[x] = SliceVal{Base: PtrVal{Cell: c}, Off: vc.idx(0), Len: ln, Cap: cp, IsNil: TFalse()}
	return
}

// SliceArr models the backing array of a [][]byte: per-slot nil flag, length and content id.
type SliceArr struct {
	IsNil Term // Array idx Bool
	Len   Term // Array idx idx
	Data  Term // Array idx (Array idx byte)   content of each slot
}

func (vc *VC) zeroSliceArray(elemT types.Type) Val {
	sl, ok := elemT.Underlying().(*types.Slice)
	if !ok {
		panic(execError{fmt.Sprintf("make of slice with unsupported element %v", elemT)})
	}
	es, ok := vc.sortOf(sl.Elem())
	if !ok {
		panic(execError{"nested slice element unsupported"})
	}
	is := vc.intSort(64)
	inner := ArrSort(is, es)
	return SliceArr{
		IsNil: ConstArray(ArrSort(is, SBool), TTrue()),
		Len:   ConstArray(ArrSort(is, is), vc.idx(0)),
		Data:  vc.freshTerm("slots", ArrSort(is, inner)),
	}
}

func (vc *VC) allocObligation(fr *Frame, st *State, n Term, elemT types.Type, pos token.Pos) {
	if vc.dry > 0 || n.C != nil {
		return
	}
	// find the alloc bound of the root contract on the stack
	var bound *SpecExpr
	var owner *Frame
	for f := fr; f != nil; f = f.parent {
		if f.contract != nil && f.contract.AllocBound != nil {
			bound = f.contract.AllocBound
			owner = f
		}
	}
	if bound == nil {
		if vc.eng.requireAllocBounds {
			vc.addObligation(st, "alloc", "no-bound", vc.posOf(pos), TFalse(), vc.curProps)
		}
		return
	}
	b := vc.evalSpecTerm(owner, st, bound, nil)
	vc.addObligation(st, "alloc", "bounded", vc.posOf(pos), vc.iLe(n, b, true), vc.curProps)
}

func (vc *VC) typeAssert(fr *Frame, st *State, x *ssa.TypeAssert) (forks []*State) {
	v := vc.val(fr, st, x.X)
	switch iv := v.(type) {
	case IfaceVal:
		match := iv.Dyn != nil && types.Identical(iv.Dyn, x.AssertedType)
		if _, isIface := x.AssertedType.Underlying().(*types.Interface); isIface {
			match = iv.Dyn != nil && types.Implements(iv.Dyn, x.AssertedType.Underlying().(*types.Interface))
			if iv.Dyn == streamDynType() && x.CommaOk && !match {
				// a ghost reader's dynamic type is unknown: it may or may not implement further
				// interfaces (io.Seeker, io.WriterTo, ...). Both outcomes are explored; using a
				// method the stream model lacks then stops generation (reported, never proved).
				okT := vc.freshTerm("implements", SBool)
				fr.env[x] = TupleVal{iv, okT}
				return
			}
			if x.CommaOk {
				if match {
					fr.env[x] = TupleVal{iv, TTrue()}
				} else {
					fr.env[x] = TupleVal{IfaceVal{}, TFalse()}
				}
				return
			}
			if !match {
				if ps := vc.safe(fr, st, TFalse(), "typeassert", x.Pos()); ps != nil {
					forks = append(forks, ps)
				}
			}
			fr.env[x] = iv
			return
		}
		if x.CommaOk {
			if match {
				fr.env[x] = TupleVal{iv.V, TTrue()}
			} else {
				fr.env[x] = TupleVal{vc.zero(x.AssertedType), TFalse()}
			}
			return
		}
		if !match {
			if ps := vc.safe(fr, st, TFalse(), "typeassert", x.Pos()); ps != nil {
				forks = append(forks, ps)
			}
			st.Assume(TFalse())
			fr.env[x] = vc.zero(x.AssertedType)
			return
		}
		fr.env[x] = iv.V
	case SymIface:
		// symbolic interface: dynamic type is unknown; only comma-ok to a concrete
		// type is supported, and it yields the "not that type" branch plus a note.
		if x.CommaOk {
			vc.notes = append(vc.notes, "type switch on symbolic interface "+x.X.Name()+": only the generic branch explored")
			fr.env[x] = TupleVal{vc.zero(x.AssertedType), TFalse()}
			return
		}
		panic(execError{"type assertion on symbolic interface"})
	default:
		panic(execError{fmt.Sprintf("TypeAssert on %T", v)})
	}
	return
}

// ---- calls -------------------------------------------------------------------------

func (vc *VC) evalCallee(fr *Frame, st *State, c *ssa.CallCommon) (Val, []Val) {
	var args []Val
	if c.IsInvoke() {
		recv := vc.val(fr, st, c.Value)
		for _, a := range c.Args {
			args = append(args, vc.val(fr, st, a))
		}
		return recv, args
	}
	for _, a := range c.Args {
		args = append(args, vc.val(fr, st, a))
	}
	return vc.val(fr, st, c.Value), args
}

func (vc *VC) doCall(fr *Frame, st *State, c *ssa.CallCommon, site *ssa.Call) []Outcome {
	fnv, args := vc.evalCallee(fr, st, c)
	return vc.invoke(fr, st, fnv, args, c, site)
}

func (vc *VC) invoke(fr *Frame, st *State, fnv Val, args []Val, c *ssa.CallCommon, site *ssa.Call) []Outcome {
	var pos token.Pos
	if site != nil {
		pos = site.Pos()
	}
	if c.IsInvoke() {
		return vc.invokeMethod(fr, st, fnv, c.Method, args, pos)
	}
	fv, ok := fnv.(FuncVal)
	if !ok {
		panic(execError{fmt.Sprintf("call of %T", fnv)})
	}
	if strings.HasPrefix(fv.Sym, "builtin:") {
		return vc.callBuiltin(fr, st, strings.TrimPrefix(fv.Sym, "builtin:"), args, c, pos)
	}
	if fv.Sym != "" {
		// uninterpreted pure function parameter
		return []Outcome{{St: st, Ret: vc.ufCall(fv.Sym, fv.Sig, args)}}
	}
	if fv.Nil || fv.Fn == nil {
		panic(execError{"call of nil function"})
	}
	return vc.callStatic(fr, st, fv.Fn, args, fv.Bind, pos)
}

func (vc *VC) ufCall(sym string, sig *types.Signature, args []Val) []Val {
	var targs []Term
	for _, a := range args {
		switch a.(type) {
		case Term, StructVal, ArrVal, IfaceVal, SymIface:
			targs = append(targs, vc.flattenVal(a)...)
		default:
			panic(execError{fmt.Sprintf("uninterpreted function %s applied to %T", sym, a)})
		}
	}
	var rets []Val
	rs := sig.Results()
	for i := 0; i < rs.Len(); i++ {
		rt := rs.At(i).Type()
		sorts, ok := vc.flattenSorts(rt)
		if !ok {
			panic(execError{"uninterpreted function " + sym + " with unsupported result type"})
		}
		var ts []Term
		shape := ""
		for _, t := range targs {
			shape += "_" + sanitize(t.S.String())
		}
		for k, s := range sorts {
			nm := sym
			if rs.Len() > 1 || len(sorts) > 1 {
				nm = fmt.Sprintf("%s.%d.%d", sym, i, k)
			}
			if strings.HasPrefix(sym, "fn!") && !strings.HasPrefix(sym, "fn!github") {
				nm += "!" + fmt.Sprint(len(targs)) + shape // function parameters may be applied to values of different shapes
			}
			ts = append(ts, vc.ufApp(nm, s, targs...))
		}
		k := 0
		rets = append(rets, vc.unflatten(rt, ts, &k))
	}
	return rets
}

func funcSym(fn *ssa.Function) string {
	return "fn!" + sanitize(fn.String())
}

func (vc *VC) callStatic(fr *Frame, st *State, fn *ssa.Function, args []Val, bind []Val, pos token.Pos) []Outcome {
	full := fn.String()
	if fr != nil && fr.parent == nil && fr.contract != nil && fr.contract.Delegates != nil {
		if outs, ok := vc.delegateCall(fr, st, fn, args, pos); ok {
			return outs
		}
	}
	if h, ok := extHandlers[full]; ok {
		return h(vc, fr, st, args, pos)
	}
	if fn.Pkg == nil || !vc.eng.isRepoPkg(fn.Pkg.Pkg) {
		if strings.HasSuffix(full, ".init") {
			return []Outcome{{St: st}}
		}
		if vc.eng.inlineExternal[full] && len(fn.Blocks) > 0 {
			vc.assume("A-STDSRC")
			base := len(st.pc)
			w0 := st.extWrites
			pre := st.Clone()
			outs := vc.callFunction(fn, args, bind, st, fr)
			return vc.mergePure(pre, base, w0, outs)
		}
		panic(execError{"call to external function without assumed contract: " + full})
	}
	if fn.Name() == "init" && fn.Synthetic != "" {
		return []Outcome{{St: st}}
	}
	fc := vc.eng.contractFor(fn, vc.mode)
	if fc != nil && fc.Modular && !(fr == nil) && !vc.eng.forceInline[fn] {
		return vc.callModular(fr, st, fn, fc, args, pos)
	}
	base := len(st.pc)
	w0 := st.extWrites
	pre := st.Clone()
	outs := vc.callFunction(fn, args, bind, st, fr)
	return vc.mergePure(pre, base, w0, outs)
}

// mergePure joins the outcomes of an inlined call that had no effect on memory visible to
// the caller into one outcome (return values as ite over the path guards). This keeps
// chains of small pure helpers (quantisers, table look-ups) from multiplying paths.
func (vc *VC) mergePure(pre *State, base int, w0 int, outs []Outcome) []Outcome {
	if len(outs) < 2 {
		return outs
	}
	for _, o := range outs {
		if o.Panic || o.St.extWrites != w0 || o.St.panicking {
			return outs
		}
		for _, r := range o.Ret {
			if !isScalarTree(r) {
				return outs
			}
		}
		// the common prefix must be intact
		if len(o.St.pc) < base {
			return outs
		}
	}
	st := pre
	var res []Val
	first := true
	for i := len(outs) - 1; i >= 0; i-- {
		o := outs[i]
		// a fact holds under the branch guards that precede it on the path (not under later ones)
		var guards, facts []Term
		for k := base; k < len(o.St.pc); k++ {
			if k < len(o.St.isFact) && o.St.isFact[k] {
				facts = append(facts, Implies(And(guards...), o.St.pc[k]))
			} else {
				guards = append(guards, o.St.pc[k])
			}
		}
		cond := And(guards...)
		for _, f := range facts {
			st.Fact(f)
		}
		if first {
			res = append([]Val(nil), o.Ret...)
			first = false
			continue
		}
		for k := range res {
			res[k] = vc.iteVal(cond, o.Ret[k], res[k])
		}
	}
	return []Outcome{{St: st, Ret: res}}
}

func isScalarTree(v Val) bool {
	switch x := v.(type) {
	case Term:
		return true
	case StructVal:
		for _, f := range x.F {
			if !isScalarTree(f) {
				return false
			}
		}
		return true
	case ArrVal:
		for _, f := range x.E {
			if !isScalarTree(f) {
				return false
			}
		}
		return true
	case TupleVal:
		for _, f := range x {
			if !isScalarTree(f) {
				return false
			}
		}
		return true
	}
	return false
}


// realDiv: in exact-real mode a quotient by a non-constant divisor is introduced as a
// fresh variable q with the defining polynomial constraint b != 0 => q*b = a, which keeps
// the queries inside polynomial arithmetic (the solvers' complete fragment).
func (vc *VC) realDiv(a, b Term) Term {
	if b.R != nil || vc.mode.Rnd || vc.noDefine > 0 || vc.divAsTerm {
		return RealDiv(a, b)
	}
	key := a.E + " / " + b.E
	if q, ok := vc.divCache[key]; ok {
		return q
	}
	q := vc.freshTerm("quot", SReal)
	vc.decl(fmt.Sprintf("(assert (=> (not (= %s 0.0)) (= (* %s %s) %s))) ;anchor=%s", b.E, q.E, b.E, a.E, q.E))
	if vc.divCache == nil {
		vc.divCache = map[string]Term{}
	}
	vc.divCache[key] = q
	return q
}
