package main

// Generator-side quantifier instantiation: a universally quantified assumption with one
// bound variable and an explicit trigger is replaced by its instances at the ground terms
// matching the trigger in the rest of the query. Instances are consequences of the
// assumption, so the resulting quantifier-free query is weaker: unsat still discharges.

import (
	"math/big"
	"strings"
)

type quantAssume struct {
	v    string   // bound variable name
	body string   // body without the (! ... :pattern ...) wrapper
	pats []string // trigger terms
}

// readSexp returns the s-expression starting at s[i] (symbol or parenthesised term).
func readSexp(s string, i int) (string, int) {
	if i >= len(s) {
		return "", i
	}
	if s[i] == '(' {
		depth := 0
		for j := i; j < len(s); j++ {
			switch s[j] {
			case '(':
				depth++
			case ')':
				depth--
				if depth == 0 {
					return s[i : j+1], j + 1
				}
			}
		}
		return "", len(s)
	}
	j := i
	for j < len(s) && s[j] != ' ' && s[j] != ')' && s[j] != '(' {
		j++
	}
	return s[i:j], j
}

func parseQuant(a string) (quantAssume, bool) {
	const pre = "(forall (("
	if !strings.HasPrefix(a, pre) {
		return quantAssume{}, false
	}
	rest := a[len(pre):]
	sp := strings.Index(rest, " ")
	if sp < 0 {
		return quantAssume{}, false
	}
	v := rest[:sp]
	// skip the sort and the closing of the binder list
	_, k := readSexp(rest, sp+1)
	if !strings.HasPrefix(rest[k:], ")) ") {
		return quantAssume{}, false // more than one bound variable
	}
	body := rest[k+3 : len(rest)-1]
	if !strings.HasPrefix(body, "(! ") {
		return quantAssume{}, false
	}
	inner, j := readSexp(body, 3)
	tail := strings.TrimSpace(body[j:])
	if !strings.HasPrefix(tail, ":pattern (") {
		return quantAssume{}, false
	}
	pl := tail[len(":pattern ("):]
	var pats []string
	for i := 0; i < len(pl); {
		if pl[i] == ' ' {
			i++
			continue
		}
		if pl[i] == ')' {
			break
		}
		p, n := readSexp(pl, i)
		if p == "" {
			break
		}
		pats = append(pats, p)
		i = n
	}
	if len(pats) != 1 {
		return quantAssume{}, false
	}
	return quantAssume{v: v, body: inner, pats: pats}, true
}

// matches finds the ground terms X such that pattern[v:=X] occurs in text.
func (q quantAssume) matches(text string, seen map[string]bool) []string {
	pat := q.pats[0]
	vi := strings.Index(pat, q.v)
	if vi < 0 {
		return nil
	}
	prefix, suffix := pat[:vi], pat[vi+len(q.v):]
	if strings.Contains(suffix, q.v) {
		return nil
	}
	var res []string
	// pattern f(v + c): any occurrence f(X + d) gives the instance v := X + (d - c)
	if strings.HasSuffix(prefix, "(bvadd ") && strings.HasPrefix(suffix, " #x") {
		end := strings.Index(suffix[1:], ")")
		if end > 0 {
			cHex := suffix[3 : 1+end]
			rest := suffix[1+end+1:] // after the closing paren of bvadd
			c, ok := new(big.Int).SetString(cHex, 16)
			if ok {
				for from := 0; ; {
					k := strings.Index(text[from:], prefix)
					if k < 0 {
						break
					}
					at := from + k + len(prefix)
					from = from + k + 1
					x, n := readSexp(text, at)
					if x == "" || n >= len(text) || text[n] != ' ' {
						continue
					}
					d, n2 := readSexp(text, n+1)
					if !strings.HasPrefix(d, "#x") || n2 >= len(text) || text[n2] != ')' || !strings.HasPrefix(text[n2+1:], rest) {
						continue
					}
					dv, ok := new(big.Int).SetString(d[2:], 16)
					if !ok || strings.Contains(x, "!q") {
						continue
					}
					diff := new(big.Int).Sub(dv, c)
					width := 4 * len(d[2:])
					diff = bvNorm(diff, width)
					inst := x
					if diff.Sign() != 0 {
						inst = "(bvadd " + x + " " + BVConst(diff, width, true).E + ")"
					}
					if !seen[inst] {
						seen[inst] = true
						res = append(res, inst)
					}
				}
				// a bare f(X) also matches with v := X - c
				return res
			}
		}
	}
	for from := 0; ; {
		k := strings.Index(text[from:], prefix)
		if k < 0 {
			break
		}
		at := from + k + len(prefix)
		x, n := readSexp(text, at)
		from = from + k + 1
		if x == "" || !strings.HasPrefix(text[n:], suffix) {
			continue
		}
		if strings.Contains(x, "!q") {
			continue // mentions a bound variable of some quantifier
		}
		if !seen[x] {
			seen[x] = true
			res = append(res, x)
		}
	}
	return res
}

// instantiate returns the assumptions with triggered single-variable quantifiers replaced by
// instances; other quantified assumptions are dropped.
func instantiate(assumes []string, goal string, defs string) []string {
	var ground []string
	var quants []quantAssume
	for _, a := range assumes {
		if strings.HasPrefix(a, "(forall ") {
			if q, ok := parseQuant(a); ok {
				quants = append(quants, q)
			}
			continue
		}
		if strings.Contains(a, "(forall ") || strings.Contains(a, "(exists ") {
			continue
		}
		ground = append(ground, a)
	}
	seen := make([]map[string]bool, len(quants))
	for i := range seen {
		seen[i] = map[string]bool{}
	}
	for round := 0; round < 3; round++ {
		text := defs + "\n" + goal + "\n" + strings.Join(ground, "\n")
		added := false
		for i, q := range quants {
			for _, x := range q.matches(text, seen[i]) {
				inst := strings.ReplaceAll(q.body, q.v, x)
				if strings.Contains(inst, "(forall ") {
					continue
				}
				ground = append(ground, inst)
				added = true
			}
		}
		if !added {
			break
		}
	}
	return ground
}
