package main

// Tolerance for renamed locals. Loop clauses name the loop's own variables; a harmless rename would make them
// unresolvable. /verif/names_snapshot.json records, for every top-level function that has a contract (its own or one
// of its closures'), the ordered list of (name, type) of the variables it declares, as of the tree the contracts were
// written against. When a clause's identifier cannot be resolved, the current function's list is compared with the
// snapshot: if both have the same length and the same types position by position, the identifier is resolved to
// the variable now declared at the position where the old name was declared. Anything else stays an alarm.

import (
	"encoding/json"
	"go/ast"
	"go/types"
	"os"
	"path/filepath"
	"sort"

	"golang.org/x/tools/go/ssa"
)

func topLevel(fn *ssa.Function) *ssa.Function {
	for fn.Parent() != nil {
		fn = fn.Parent()
	}
	return fn
}

// localNames: variables declared in the top-level function enclosing fn, in source order.
func (e *Engine) localNames(fn *ssa.Function) [][2]string {
	top := topLevel(fn)
	syn := top.Syntax()
	if syn == nil || top.Pkg == nil {
		return nil
	}
	pp := e.pkgOf[top.Pkg.Pkg]
	if pp == nil || pp.TypesInfo == nil {
		return nil
	}
	var out [][2]string
	qual := func(p *types.Package) string { return p.Name() }
	ast.Inspect(syn, func(n ast.Node) bool {
		id, ok := n.(*ast.Ident)
		if !ok {
			return true
		}
		if obj, ok := pp.TypesInfo.Defs[id]; ok && obj != nil {
			if v, ok := obj.(*types.Var); ok && !v.IsField() {
				out = append(out, [2]string{id.Name, types.TypeString(v.Type(), qual)})
			}
		}
		return true
	})
	return out
}

func (e *Engine) topKey(fn *ssa.Function) string {
	top := topLevel(fn)
	if top.Pkg == nil {
		return top.String()
	}
	return top.Pkg.Pkg.Name() + "." + fnKey(top)
}

// namesSnapshot builds the snapshot for every top-level function reached by a contract.
func (e *Engine) namesSnapshot() map[string][][2]string {
	out := map[string][][2]string{}
	for _, fc := range e.contracts {
		if fc.Fn == nil || fc.Fn.Synthetic != "" {
			continue
		}
		k := e.topKey(fc.Fn)
		if _, ok := out[k]; !ok {
			out[k] = e.localNames(fc.Fn)
		}
	}
	return out
}

func runNames(repo string) int {
	eng, err := loadEngine(repo)
	if err != nil {
		return 2
	}
	snap := eng.namesSnapshot()
	keys := make([]string, 0, len(snap))
	for k := range snap {
		keys = append(keys, k)
	}
	sort.Strings(keys)
	ordered := make([]struct {
		Func  string      `json:"func"`
		Names [][2]string `json:"names"`
	}, 0, len(keys))
	for _, k := range keys {
		ordered = append(ordered, struct {
			Func  string      `json:"func"`
			Names [][2]string `json:"names"`
		}{k, snap[k]})
	}
	b, _ := json.MarshalIndent(ordered, "", " ")
	os.Stdout.Write(b)
	os.Stdout.WriteString("\n")
	return 0
}

func (e *Engine) loadNameSnapshot() {
	e.nameSnap = map[string][][2]string{}
	b, err := os.ReadFile(filepath.Join(verifDir, "names_snapshot.json"))
	if err != nil {
		b, err = os.ReadFile("/verif/names_snapshot.json")
	}
	if err != nil {
		return
	}
	var ordered []struct {
		Func  string      `json:"func"`
		Names [][2]string `json:"names"`
	}
	if json.Unmarshal(b, &ordered) != nil {
		return
	}
	for _, o := range ordered {
		e.nameSnap[o.Func] = o.Names
	}
}

// renamedLocal: the current name of the variable that was called `name` when the contracts were written, or "".
func (e *Engine) renamedLocal(fn *ssa.Function, name string) string {
	if e.nameSnap == nil {
		e.loadNameSnapshot()
	}
	snap := e.nameSnap[e.topKey(fn)]
	cur := e.localNames(fn)
	if len(snap) == 0 || len(snap) != len(cur) {
		return ""
	}
	for i := range snap {
		if snap[i][1] != cur[i][1] {
			return ""
		}
	}
	cand := ""
	for i := range snap {
		if snap[i][0] == name && cur[i][0] != name {
			if cand != "" && cand != cur[i][0] {
				return ""
			}
			cand = cur[i][0]
		}
	}
	return cand
}
