package main

// Tolerance for renamed locals. Loop clauses name the loop's own variables; a harmless rename would make them
// unresolvable. /verif/names_snapshot.json records, for every top-level function that has a contract (its own or one
// of its closures'), the ordered list of (name, type) of the variables it declares, as of the tree the contracts were
// written against. When a clause's identifier cannot be resolved, the current function's list is compared with the
// snapshot: if both have the same length and the same types position by position, the identifier is resolved to
// the variable now declared at the position where the old name was declared. Anything else stays an alarm.

import (
	"encoding/json"
	"strings"
	"go/ast"
	"go/types"
	"os"
	"path/filepath"
	"sort"

	"golang.org/x/tools/go/ssa"
)

func topLevel(fn *ssa.Function) *ssa.Function {
	for fn.Parent() != nil {
		fn = fn.Parent()
	}
	return fn
}

// localNames: variables declared in the top-level function enclosing fn, in source order.
func (e *Engine) localNames(fn *ssa.Function) [][2]string {
	top := topLevel(fn)
	syn := top.Syntax()
	if syn == nil || top.Pkg == nil {
		return nil
	}
	pp := e.pkgOf[top.Pkg.Pkg]
	if pp == nil || pp.TypesInfo == nil {
		return nil
	}
	var out [][2]string
	qual := func(p *types.Package) string { return p.Name() }
	ast.Inspect(syn, func(n ast.Node) bool {
		id, ok := n.(*ast.Ident)
		if !ok {
			return true
		}
		if obj, ok := pp.TypesInfo.Defs[id]; ok && obj != nil {
			if v, ok := obj.(*types.Var); ok && !v.IsField() {
				out = append(out, [2]string{id.Name, types.TypeString(v.Type(), qual)})
			}
		}
		return true
	})
	return out
}

func (e *Engine) topKey(fn *ssa.Function) string {
	top := topLevel(fn)
	if top.Pkg == nil {
		return top.String()
	}
	return top.Pkg.Pkg.Name() + "." + fnKey(top)
}

// namesSnapshot builds the snapshot for every top-level function reached by a contract.
func (e *Engine) namesSnapshot() map[string][][2]string {
	out := map[string][][2]string{}
	for _, fc := range e.contracts {
		if fc.Fn == nil || fc.Fn.Synthetic != "" {
			continue
		}
		k := e.topKey(fc.Fn)
		if _, ok := out[k]; !ok {
			out[k] = e.localNames(fc.Fn)
		}
		out["params:"+e.ownKey(fc.Fn)] = e.paramNames(fc.Fn)
		if fc.Fn.Pkg != nil {
			k2 := "pkgobjs:" + fc.Fn.Pkg.Pkg.Path()
			if _, ok := out[k2]; !ok {
				out[k2] = pkgObjects(fc.Fn.Pkg.Pkg)
			}
		}
	}
	return out
}

// pkgObjects: package-level functions and constants with a description of what they are (signature / type and
// exact value), for the tolerance to renamed private functions and constants.
func pkgObjects(p *types.Package) [][2]string {
	var out [][2]string
	qual := func(q *types.Package) string { return q.Name() }
	names := p.Scope().Names()
	sort.Strings(names)
	for _, n := range names {
		switch o := p.Scope().Lookup(n).(type) {
		case *types.Func:
			sig := o.Type().(*types.Signature)
			// parameter names are not part of the description
			out = append(out, [2]string{n, "func " + types.TypeString(sig.Params(), qual) + " " + types.TypeString(sig.Results(), qual)})
		case *types.Const:
			out = append(out, [2]string{n, "const " + types.TypeString(o.Type(), qual) + " = " + o.Val().ExactString()})
		}
	}
	for i := range out {
		// drop parameter names from tuple strings: "(v float32, wp float32)" -> types only
		out[i][1] = stripParamNames(out[i][1])
	}
	return out
}

func stripParamNames(s string) string {
	// types.TypeString of a tuple prints "name type"; remove the names
	var b strings.Builder
	depth := 0
	i := 0
	for i < len(s) {
		c := s[i]
		if c == '(' || c == ',' {
			b.WriteByte(c)
			i++
			if c == '(' {
				depth++
			}
			for i < len(s) && s[i] == ' ' {
				b.WriteByte(' ')
				i++
			}
			// an identifier followed by a space and more text before , or ) is a parameter name
			j := i
			for j < len(s) && (s[j] == '_' || s[j] >= 'a' && s[j] <= 'z' || s[j] >= 'A' && s[j] <= 'Z' || s[j] >= '0' && s[j] <= '9') {
				j++
			}
			if j > i && j < len(s) && s[j] == ' ' {
				i = j + 1
			}
			continue
		}
		if c == ')' {
			depth--
		}
		b.WriteByte(c)
		i++
	}
	return b.String()
}

// oldKey: the snapshot key of a function, allowing for the function itself having been renamed.
func (e *Engine) oldKey(fn *ssa.Function, key string) string {
	if _, ok := e.nameSnap["params:"+key]; ok || fn.Pkg == nil || fn.Parent() != nil || fn.Signature.Recv() != nil {
		return key
	}
	prefix := fn.Pkg.Pkg.Name() + "."
	for k := range e.nameSnap {
		if !strings.HasPrefix(k, "params:"+prefix) {
			continue
		}
		old := strings.TrimPrefix(k, "params:"+prefix)
		if strings.ContainsAny(old, ".$") {
			continue
		}
		if e.renamedPkgObject(fn.Pkg.Pkg, old) == fn.Name() {
			return prefix + old
		}
	}
	return key
}

// renamedPkgObject: the current name of the package-level function or constant that was called `name` when the
// contracts were written: common entries are set aside, and the name is resolved only if exactly one vanished and one
// new object share its description.
func (e *Engine) renamedPkgObject(p *types.Package, name string) string {
	if e.nameSnap == nil {
		e.loadNameSnapshot()
	}
	old := e.nameSnap["pkgobjs:"+p.Path()]
	if len(old) == 0 {
		return ""
	}
	cur := pkgObjects(p)
	inCur := map[[2]string]bool{}
	for _, c := range cur {
		inCur[c] = true
	}
	inOld := map[[2]string]bool{}
	for _, o := range old {
		inOld[o] = true
	}
	desc := ""
	for _, o := range old {
		if o[0] == name && !inCur[o] {
			desc = o[1]
		}
	}
	if desc == "" {
		return ""
	}
	nOld, nNew, cand := 0, 0, ""
	for _, o := range old {
		if !inCur[o] && o[1] == desc {
			nOld++
		}
	}
	for _, c := range cur {
		if !inOld[c] && c[1] == desc {
			nNew++
			cand = c[0]
		}
	}
	if nOld == 1 && nNew == 1 {
		return cand
	}
	return ""
}

func runNames(repo string) int {
	eng, err := loadEngine(repo)
	if err != nil {
		return 2
	}
	snap := eng.namesSnapshot()
	keys := make([]string, 0, len(snap))
	for k := range snap {
		keys = append(keys, k)
	}
	sort.Strings(keys)
	ordered := make([]struct {
		Func  string      `json:"func"`
		Names [][2]string `json:"names"`
	}, 0, len(keys))
	for _, k := range keys {
		ordered = append(ordered, struct {
			Func  string      `json:"func"`
			Names [][2]string `json:"names"`
		}{k, snap[k]})
	}
	b, _ := json.MarshalIndent(ordered, "", " ")
	os.Stdout.Write(b)
	os.Stdout.WriteString("\n")
	return 0
}

func (e *Engine) loadNameSnapshot() {
	e.nameSnap = map[string][][2]string{}
	b, err := os.ReadFile(filepath.Join(verifDir, "names_snapshot.json"))
	if err != nil {
		b, err = os.ReadFile("/verif/names_snapshot.json")
	}
	if err != nil {
		return
	}
	var ordered []struct {
		Func  string      `json:"func"`
		Names [][2]string `json:"names"`
	}
	if json.Unmarshal(b, &ordered) != nil {
		return
	}
	for _, o := range ordered {
		e.nameSnap[o.Func] = o.Names
	}
}

// paramNames: receiver, parameters and named results of fn itself, in order.
func (e *Engine) paramNames(fn *ssa.Function) [][2]string {
	var out [][2]string
	qual := func(p *types.Package) string { return p.Name() }
	for _, p := range fn.Params {
		out = append(out, [2]string{p.Name(), types.TypeString(p.Type(), qual)})
	}
	res := fn.Signature.Results()
	for i := 0; i < res.Len(); i++ {
		out = append(out, [2]string{"result:" + res.At(i).Name(), types.TypeString(res.At(i).Type(), qual)})
	}
	return out
}

func (e *Engine) ownKey(fn *ssa.Function) string {
	if fn.Pkg == nil {
		return fn.String()
	}
	return fn.Pkg.Pkg.Name() + "." + fnKey(fn)
}

// renamedLocal: the current name of the variable that was called `name` when the contracts were written, or "".
// Parameters are matched by position (same count, same types). Other variables: the entries common to the old and
// the new declaration list (same name, same type) are set aside; the old name is resolved only if, among what is
// left, exactly one old and exactly one new variable have its type.
func (e *Engine) renamedLocal(fn *ssa.Function, name string) string {
	if e.nameSnap == nil {
		e.loadNameSnapshot()
	}
	if ps := e.nameSnap["params:"+e.oldKey(fn, e.ownKey(fn))]; len(ps) > 0 {
		cur := e.paramNames(fn)
		if len(cur) == len(ps) {
			same := true
			for i := range ps {
				if ps[i][1] != cur[i][1] {
					same = false
				}
			}
			if same {
				for i := range ps {
					if ps[i][0] == name && cur[i][0] != name && !strings.HasPrefix(name, "result:") {
						return cur[i][0]
					}
					if ps[i][0] == "result:"+name && cur[i][0] != ps[i][0] && cur[i][0] != "result:" {
						return strings.TrimPrefix(cur[i][0], "result:")
					}
				}
			}
		}
	}
	snap := e.nameSnap[e.oldKey(topLevel(fn), e.topKey(fn))]
	cur := e.localNames(fn)
	if len(snap) == 0 {
		return ""
	}
	// set aside common entries (multiset of name+type)
	count := map[[2]string]int{}
	for _, c := range cur {
		count[c]++
	}
	var oldLeft [][2]string
	for _, o := range snap {
		if count[o] > 0 {
			count[o]--
		} else {
			oldLeft = append(oldLeft, o)
		}
	}
	count = map[[2]string]int{}
	for _, o := range snap {
		count[o]++
	}
	var newLeft [][2]string
	for _, c := range cur {
		if count[c] > 0 {
			count[c]--
		} else {
			newLeft = append(newLeft, c)
		}
	}
	T := ""
	nOld := 0
	for _, o := range oldLeft {
		if o[0] == name {
			if T != "" && T != o[1] {
				return ""
			}
			T = o[1]
		}
	}
	if T == "" {
		return ""
	}
	for _, o := range oldLeft {
		if o[1] == T {
			nOld++
		}
	}
	cand := ""
	nNew := 0
	for _, c := range newLeft {
		if c[1] == T {
			nNew++
			cand = c[0]
		}
	}
	if nOld == 1 && nNew == 1 {
		return cand
	}
	return ""
}
