package main

// Tolerance for renamed locals. Loop clauses name the loop's own variables; a harmless rename would make them
// unresolvable. /verif/names_snapshot.json records, for every top-level function that has a contract (its own or one
// of its closures'), the ordered list of (name, type) of the variables it declares, as of the tree the contracts were
// written against. When a clause's identifier cannot be resolved, the current function's list is compared with the
// snapshot: if both have the same length and the same types position by position, the identifier is resolved to
// the variable now declared at the position where the old name was declared. Anything else stays an alarm.

import (
	"encoding/json"
	"strings"
	"go/ast"
	"go/types"
	"os"
	"path/filepath"
	"sort"

	"golang.org/x/tools/go/ssa"
)

func topLevel(fn *ssa.Function) *ssa.Function {
	for fn.Parent() != nil {
		fn = fn.Parent()
	}
	return fn
}

// localNames: variables declared in the top-level function enclosing fn, in source order.
func (e *Engine) localNames(fn *ssa.Function) [][2]string {
	top := topLevel(fn)
	syn := top.Syntax()
	if syn == nil || top.Pkg == nil {
		return nil
	}
	pp := e.pkgOf[top.Pkg.Pkg]
	if pp == nil || pp.TypesInfo == nil {
		return nil
	}
	var out [][2]string
	qual := func(p *types.Package) string { return p.Name() }
	ast.Inspect(syn, func(n ast.Node) bool {
		id, ok := n.(*ast.Ident)
		if !ok {
			return true
		}
		if obj, ok := pp.TypesInfo.Defs[id]; ok && obj != nil {
			if v, ok := obj.(*types.Var); ok && !v.IsField() {
				out = append(out, [2]string{id.Name, types.TypeString(v.Type(), qual)})
			}
		}
		return true
	})
	return out
}

func (e *Engine) topKey(fn *ssa.Function) string {
	top := topLevel(fn)
	if top.Pkg == nil {
		return top.String()
	}
	return top.Pkg.Pkg.Name() + "." + fnKey(top)
}

// namesSnapshot builds the snapshot for every top-level function reached by a contract.
func (e *Engine) namesSnapshot() map[string][][2]string {
	out := map[string][][2]string{}
	for _, fc := range e.contracts {
		if fc.Fn == nil || fc.Fn.Synthetic != "" {
			continue
		}
		k := e.topKey(fc.Fn)
		if _, ok := out[k]; !ok {
			out[k] = e.localNames(fc.Fn)
		}
		out["params:"+e.ownKey(fc.Fn)] = e.paramNames(fc.Fn)
	}
	return out
}

func runNames(repo string) int {
	eng, err := loadEngine(repo)
	if err != nil {
		return 2
	}
	snap := eng.namesSnapshot()
	keys := make([]string, 0, len(snap))
	for k := range snap {
		keys = append(keys, k)
	}
	sort.Strings(keys)
	ordered := make([]struct {
		Func  string      `json:"func"`
		Names [][2]string `json:"names"`
	}, 0, len(keys))
	for _, k := range keys {
		ordered = append(ordered, struct {
			Func  string      `json:"func"`
			Names [][2]string `json:"names"`
		}{k, snap[k]})
	}
	b, _ := json.MarshalIndent(ordered, "", " ")
	os.Stdout.Write(b)
	os.Stdout.WriteString("\n")
	return 0
}

func (e *Engine) loadNameSnapshot() {
	e.nameSnap = map[string][][2]string{}
	b, err := os.ReadFile(filepath.Join(verifDir, "names_snapshot.json"))
	if err != nil {
		b, err = os.ReadFile("/verif/names_snapshot.json")
	}
	if err != nil {
		return
	}
	var ordered []struct {
		Func  string      `json:"func"`
		Names [][2]string `json:"names"`
	}
	if json.Unmarshal(b, &ordered) != nil {
		return
	}
	for _, o := range ordered {
		e.nameSnap[o.Func] = o.Names
	}
}

// paramNames: receiver, parameters and named results of fn itself, in order.
func (e *Engine) paramNames(fn *ssa.Function) [][2]string {
	var out [][2]string
	qual := func(p *types.Package) string { return p.Name() }
	for _, p := range fn.Params {
		out = append(out, [2]string{p.Name(), types.TypeString(p.Type(), qual)})
	}
	res := fn.Signature.Results()
	for i := 0; i < res.Len(); i++ {
		out = append(out, [2]string{"result:" + res.At(i).Name(), types.TypeString(res.At(i).Type(), qual)})
	}
	return out
}

func (e *Engine) ownKey(fn *ssa.Function) string {
	if fn.Pkg == nil {
		return fn.String()
	}
	return fn.Pkg.Pkg.Name() + "." + fnKey(fn)
}

// renamedLocal: the current name of the variable that was called `name` when the contracts were written, or "".
// Parameters are matched by position (same count, same types). Other variables: the entries common to the old and
// the new declaration list (same name, same type) are set aside; the old name is resolved only if, among what is
// left, exactly one old and exactly one new variable have its type.
func (e *Engine) renamedLocal(fn *ssa.Function, name string) string {
	if e.nameSnap == nil {
		e.loadNameSnapshot()
	}
	if ps := e.nameSnap["params:"+e.ownKey(fn)]; len(ps) > 0 {
		cur := e.paramNames(fn)
		if len(cur) == len(ps) {
			same := true
			for i := range ps {
				if ps[i][1] != cur[i][1] {
					same = false
				}
			}
			if same {
				for i := range ps {
					if ps[i][0] == name && cur[i][0] != name && !strings.HasPrefix(name, "result:") {
						return cur[i][0]
					}
					if ps[i][0] == "result:"+name && cur[i][0] != ps[i][0] && cur[i][0] != "result:" {
						return strings.TrimPrefix(cur[i][0], "result:")
					}
				}
			}
		}
	}
	snap := e.nameSnap[e.topKey(fn)]
	cur := e.localNames(fn)
	if len(snap) == 0 {
		return ""
	}
	// set aside common entries (multiset of name+type)
	count := map[[2]string]int{}
	for _, c := range cur {
		count[c]++
	}
	var oldLeft [][2]string
	for _, o := range snap {
		if count[o] > 0 {
			count[o]--
		} else {
			oldLeft = append(oldLeft, o)
		}
	}
	count = map[[2]string]int{}
	for _, o := range snap {
		count[o]++
	}
	var newLeft [][2]string
	for _, c := range cur {
		if count[c] > 0 {
			count[c]--
		} else {
			newLeft = append(newLeft, c)
		}
	}
	T := ""
	nOld := 0
	for _, o := range oldLeft {
		if o[0] == name {
			if T != "" && T != o[1] {
				return ""
			}
			T = o[1]
		}
	}
	if T == "" {
		return ""
	}
	for _, o := range oldLeft {
		if o[1] == T {
			nOld++
		}
	}
	cand := ""
	nNew := 0
	for _, c := range newLeft {
		if c[1] == T {
			nNew++
			cand = c[0]
		}
	}
	if nOld == 1 && nNew == 1 {
		return cand
	}
	return ""
}
