package main

// Tolerance for renamed names and restructured loops (DESIGN section 5, "Names" and "Loops"). Loop clauses name the
// loop's own variables and are keyed by loop ordinal; a harmless rename or a removed/added loop would make them
// unresolvable or attach them to the wrong loop. /verif/names_snapshot.json (written by `vcgo names`) records, as of
// the tree the contracts were written against: per top-level function under contract the (name, type) of the variables
// it declares; per function its parameters and results (`params:`); per function the shape of its loops in ordinal
// order (`loopvars:`); per package its functions and constants (`pkgobjs:`). An identifier that no longer resolves is
// looked up there (renamedLocal, renamedPkgObject); loop ordinals are mapped through loopAlign. Anything that cannot be
// matched unambiguously stays an alarm (a generation failure, never a counterexample).

import (
	"encoding/json"
	"fmt"
	"strings"
	"go/ast"
	"go/types"
	"os"
	"path/filepath"
	"sort"

	"golang.org/x/tools/go/ssa"
)

func topLevel(fn *ssa.Function) *ssa.Function {
	for fn.Parent() != nil {
		fn = fn.Parent()
	}
	return fn
}

// localNames: variables declared in the top-level function enclosing fn, in source order.
func (e *Engine) localNames(fn *ssa.Function) [][2]string {
	top := topLevel(fn)
	syn := top.Syntax()
	if syn == nil || top.Pkg == nil {
		return nil
	}
	pp := e.pkgOf[top.Pkg.Pkg]
	if pp == nil || pp.TypesInfo == nil {
		return nil
	}
	var out [][2]string
	qual := func(p *types.Package) string { return p.Name() }
	ast.Inspect(syn, func(n ast.Node) bool {
		id, ok := n.(*ast.Ident)
		if !ok {
			return true
		}
		if obj, ok := pp.TypesInfo.Defs[id]; ok && obj != nil {
			if v, ok := obj.(*types.Var); ok && !v.IsField() {
				out = append(out, [2]string{id.Name, types.TypeString(v.Type(), qual)})
			}
		}
		return true
	})
	return out
}

func (e *Engine) topKey(fn *ssa.Function) string {
	top := topLevel(fn)
	if top.Pkg == nil {
		return top.String()
	}
	return top.Pkg.Pkg.Name() + "." + fnKey(top)
}

// namesSnapshot builds the snapshot for every top-level function reached by a contract.
func (e *Engine) namesSnapshot() map[string][][2]string {
	out := map[string][][2]string{}
	for _, fc := range e.contracts {
		if fc.Fn == nil || fc.Fn.Synthetic != "" {
			continue
		}
		k := e.topKey(fc.Fn)
		if _, ok := out[k]; !ok {
			out[k] = e.localNames(fc.Fn)
		}
		out["params:"+e.ownKey(fc.Fn)] = e.paramNames(fc.Fn)
		if lv := e.loopVars(fc.Fn); len(lv) > 0 {
			out["loopvars:"+e.ownKey(fc.Fn)] = lv
		}
		if fc.Fn.Pkg != nil {
			k2 := "pkgobjs:" + fc.Fn.Pkg.Pkg.Path()
			if _, ok := out[k2]; !ok {
				out[k2] = pkgObjects(fc.Fn.Pkg.Pkg)
			}
		}
	}
	return out
}

// pkgObjects: package-level functions and constants with a description of what they are (signature / type and
// exact value), for the tolerance to renamed private functions and constants.
func pkgObjects(p *types.Package) [][2]string {
	var out [][2]string
	qual := func(q *types.Package) string { return q.Name() }
	names := p.Scope().Names()
	sort.Strings(names)
	for _, n := range names {
		switch o := p.Scope().Lookup(n).(type) {
		case *types.Func:
			sig := o.Type().(*types.Signature)
			// parameter names are not part of the description
			out = append(out, [2]string{n, "func " + types.TypeString(sig.Params(), qual) + " " + types.TypeString(sig.Results(), qual)})
		case *types.Const:
			out = append(out, [2]string{n, "const " + types.TypeString(o.Type(), qual) + " = " + o.Val().ExactString()})
		}
	}
	for i := range out {
		// drop parameter names from tuple strings: "(v float32, wp float32)" -> types only
		out[i][1] = stripParamNames(out[i][1])
	}
	return out
}

func stripParamNames(s string) string {
	// types.TypeString of a tuple prints "name type"; remove the names
	var b strings.Builder
	depth := 0
	i := 0
	for i < len(s) {
		c := s[i]
		if c == '(' || c == ',' {
			b.WriteByte(c)
			i++
			if c == '(' {
				depth++
			}
			for i < len(s) && s[i] == ' ' {
				b.WriteByte(' ')
				i++
			}
			// an identifier followed by a space and more text before , or ) is a parameter name
			j := i
			for j < len(s) && (s[j] == '_' || s[j] >= 'a' && s[j] <= 'z' || s[j] >= 'A' && s[j] <= 'Z' || s[j] >= '0' && s[j] <= '9') {
				j++
			}
			if j > i && j < len(s) && s[j] == ' ' {
				i = j + 1
			}
			continue
		}
		if c == ')' {
			depth--
		}
		b.WriteByte(c)
		i++
	}
	return b.String()
}

// oldKey: the snapshot key of a function, allowing for the function itself having been renamed.
func (e *Engine) oldKey(fn *ssa.Function, key string) string {
	if _, ok := e.nameSnap["params:"+key]; ok || fn.Pkg == nil || fn.Parent() != nil || fn.Signature.Recv() != nil {
		return key
	}
	prefix := fn.Pkg.Pkg.Name() + "."
	for k := range e.nameSnap {
		if !strings.HasPrefix(k, "params:"+prefix) {
			continue
		}
		old := strings.TrimPrefix(k, "params:"+prefix)
		if strings.ContainsAny(old, ".$") {
			continue
		}
		if e.renamedPkgObject(fn.Pkg.Pkg, old) == fn.Name() {
			return prefix + old
		}
	}
	return key
}

// renamedPkgObject: the current name of the package-level function or constant that was called `name` when the
// contracts were written: common entries are set aside, and the name is resolved only if exactly one vanished and one
// new object share its description.
func (e *Engine) renamedPkgObject(p *types.Package, name string) string {
	if e.nameSnap == nil {
		e.loadNameSnapshot()
	}
	old := e.nameSnap["pkgobjs:"+p.Path()]
	if len(old) == 0 {
		return ""
	}
	cur := pkgObjects(p)
	inCur := map[[2]string]bool{}
	for _, c := range cur {
		inCur[c] = true
	}
	inOld := map[[2]string]bool{}
	for _, o := range old {
		inOld[o] = true
	}
	desc := ""
	for _, o := range old {
		if o[0] == name && !inCur[o] {
			desc = o[1]
		}
	}
	if desc == "" {
		return ""
	}
	nOld, nNew, cand := 0, 0, ""
	for _, o := range old {
		if !inCur[o] && o[1] == desc {
			nOld++
		}
	}
	for _, c := range cur {
		if !inOld[c] && c[1] == desc {
			nNew++
			cand = c[0]
		}
	}
	if nOld == 1 && nNew == 1 {
		return cand
	}
	return ""
}

func runNames(repo string) int {
	eng, err := loadEngine(repo)
	if err != nil {
		return 2
	}
	snap := eng.namesSnapshot()
	keys := make([]string, 0, len(snap))
	for k := range snap {
		keys = append(keys, k)
	}
	sort.Strings(keys)
	ordered := make([]struct {
		Func  string      `json:"func"`
		Names [][2]string `json:"names"`
	}, 0, len(keys))
	for _, k := range keys {
		ordered = append(ordered, struct {
			Func  string      `json:"func"`
			Names [][2]string `json:"names"`
		}{k, snap[k]})
	}
	b, _ := json.MarshalIndent(ordered, "", " ")
	os.Stdout.Write(b)
	os.Stdout.WriteString("\n")
	return 0
}

func (e *Engine) loadNameSnapshot() {
	e.nameSnap = map[string][][2]string{}
	b, err := os.ReadFile(filepath.Join(verifDir, "names_snapshot.json"))
	if err != nil {
		b, err = os.ReadFile("/verif/names_snapshot.json")
	}
	if err != nil {
		return
	}
	var ordered []struct {
		Func  string      `json:"func"`
		Names [][2]string `json:"names"`
	}
	if json.Unmarshal(b, &ordered) != nil {
		return
	}
	for _, o := range ordered {
		e.nameSnap[o.Func] = o.Names
	}
}

// loopVars: for every for/range statement of fn itself (closures inside it are functions of their own), in source
// order -- the order of the loop ordinals -- two entries: the variable its init statement or range key declares and the
// one its range value declares ("" where there is none). A loop clause that names the induction variable of loop k
// keeps its meaning when that variable is renamed: it is resolved to whatever loop k declares now.
func (e *Engine) loopVars(fn *ssa.Function) [][2]string {
	syn := fn.Syntax()
	if syn == nil || fn.Pkg == nil {
		return nil
	}
	pp := e.pkgOf[fn.Pkg.Pkg]
	if pp == nil || pp.TypesInfo == nil {
		return nil
	}
	var body *ast.BlockStmt
	switch x := syn.(type) {
	case *ast.FuncDecl:
		body = x.Body
	case *ast.FuncLit:
		body = x.Body
	}
	if body == nil {
		return nil
	}
	qual := func(p *types.Package) string { return p.Name() }
	kind := "for:"
	entry := func(x ast.Expr) [2]string {
		id, ok := x.(*ast.Ident)
		if !ok || id.Name == "_" {
			return [2]string{"", kind}
		}
		if obj, ok := pp.TypesInfo.Defs[id]; ok && obj != nil {
			return [2]string{id.Name, kind + types.TypeString(obj.Type(), qual)}
		}
		return [2]string{"", kind}
	}
	var out [][2]string
	var stack []bool // for every open node: is it a loop
	depth := 0
	ast.Inspect(body, func(n ast.Node) bool {
		if n == nil {
			if stack[len(stack)-1] {
				depth--
			}
			stack = stack[:len(stack)-1]
			return true
		}
		if _, isLit := n.(*ast.FuncLit); isLit {
			return false
		}
		_, isFor := n.(*ast.ForStmt)
		_, isRange := n.(*ast.RangeStmt)
		stack = append(stack, isFor || isRange)
		if isFor || isRange {
			depth++
		}
		switch x := n.(type) {
		case *ast.ForStmt:
			kind = "for:"
			a, b := [2]string{"", kind}, [2]string{"", kind}
			if as, ok := x.Init.(*ast.AssignStmt); ok && len(as.Lhs) > 0 {
				a = entry(as.Lhs[0])
				if len(as.Lhs) > 1 {
					b = entry(as.Lhs[1])
				}
			}
			b[1] += fmt.Sprintf(" depth %d", depth)
			out = append(out, a, b)
		case *ast.RangeStmt:
			kind = "range:"
			a, b := [2]string{"", kind}, [2]string{"", kind}
			if x.Key != nil {
				a = entry(x.Key)
			}
			if x.Value != nil {
				b = entry(x.Value)
			}
			// the second entry also records what is ranged over, by type (robust against renames): it tells
			// loops of the same shape apart when one of them disappears
			if tv, ok := pp.TypesInfo.Types[x.X]; ok && tv.Type != nil {
				b[1] += " over " + types.TypeString(tv.Type, qual)
			}
			b[1] += fmt.Sprintf(" depth %d", depth)
			out = append(out, a, b)
		}
		return true
	})
	return out
}

// loopAlign: for each loop of fn as it is now (index 0 = ordinal 1), the index of the loop it was when the contracts
// were written, or -1 for a loop that is new. Loops are compared by shape (kind, type of the declared variables, type
// of the range operand). Identity unless the number of loops changed; then loops may only have been removed or only
// added, and the correspondence must be the only one possible. ok=false: no correspondence can be established.
func (e *Engine) loopAlign(fn *ssa.Function) (newToOld []int, nOld int, ok bool) {
	if al, have := e.loopAl[fn]; have {
		return al.m, al.nOld, al.ok
	}
	if e.nameSnap == nil {
		e.loadNameSnapshot()
	}
	sig := func(lv [][2]string) []string {
		var out []string
		for i := 0; i+1 < len(lv); i += 2 {
			out = append(out, lv[i][1]+"|"+lv[i+1][1])
		}
		return out
	}
	cur := sig(e.loopVars(fn))
	lvOld, have := e.nameSnap["loopvars:"+e.oldKey(fn, e.ownKey(fn))]
	old := sig(lvOld)
	m := make([]int, len(cur))
	for i := range m {
		m[i] = i
	}
	res := loopAlignment{m: m, nOld: len(cur), ok: true}
	if have && len(old) != len(cur) {
		res.nOld = len(old)
		long, short := old, cur
		if len(cur) > len(old) {
			long, short = cur, old
		}
		// count the embeddings of short into long (as a subsequence); remember the leftmost one
		ways := make([][]int, len(long)+1)
		for i := range ways {
			ways[i] = make([]int, len(short)+1)
		}
		for i := len(long); i >= 0; i-- {
			for j := len(short); j >= 0; j-- {
				switch {
				case j == len(short):
					ways[i][j] = 1
				case i == len(long):
					ways[i][j] = 0
				default:
					ways[i][j] = ways[i+1][j]
					if long[i] == short[j] {
						ways[i][j] += ways[i+1][j+1]
					}
					if ways[i][j] > 2 {
						ways[i][j] = 2
					}
				}
			}
		}
		if ways[0][0] != 1 {
			// no unique correspondence: loops keep their ordinals (what was done before loops were matched by
			// shape); a loop beyond the old count is new
			res.ambiguous = true
			for i := range m {
				if i >= len(old) {
					m[i] = -1
				}
			}
		} else {
			emb := make([]int, len(short)) // short index -> long index
			i, j := 0, 0
			for j < len(short) {
				if long[i] == short[j] && ways[i+1][j+1] == 1 {
					emb[j] = i
					j++
				}
				i++
			}
			if len(cur) < len(old) {
				copy(m, emb) // cur is short: cur j was old emb[j]
			} else {
				for i := range m {
					m[i] = -1
				}
				for j, i := range emb {
					m[i] = j // cur i (long) was old j
				}
			}
		}
	}
	if e.loopAl == nil {
		e.loopAl = map[*ssa.Function]loopAlignment{}
	}
	e.loopAl[fn] = res
	return res.m, res.nOld, res.ok
}

type loopAlignment struct {
	m         []int
	nOld      int
	ok        bool
	ambiguous bool
}

// oldLoopOrdinal: the ordinal under which the contract knows the loop that has ordinal n now (0: none).
func (e *Engine) oldLoopOrdinal(fn *ssa.Function, n int) int {
	m, _, ok := e.loopAlign(fn)
	if !ok || n < 1 || n > len(m) {
		return n
	}
	if m[n-1] < 0 {
		return 0
	}
	return m[n-1] + 1
}

// vanishedLoops: ordinals of contract loops (with clauses) that no loop of the function corresponds to any more.
func (e *Engine) vanishedLoops(fn *ssa.Function, fc *FuncContract) []int {
	m, nOld, ok := e.loopAlign(fn)
	if !ok || nOld == len(m) {
		return nil
	}
	kept := map[int]bool{}
	for _, o := range m {
		if o >= 0 {
			kept[o+1] = true
		}
	}
	var out []int
	for n, lc := range fc.Loops {
		// invariants and variants are proof hints for the loop they were written for: when that loop is gone
		// (typically moved into a helper, where it gets an automatically found contract or none) they are
		// dropped and the function's own clauses must be proved without them. A step clause states what an
		// iteration does, i.e. carries part of a property: losing it is reported.
		if n <= nOld && !kept[n] && lc != nil && len(lc.Steps) > 0 && !stepsCoveredElsewhere(lc) {
			out = append(out, n)
		}
	}
	sort.Ints(out)
	return out
}

// boundedStandIn: properties whose check also runs the real code over a finite domain (extras.go); what a step
// clause of theirs says about an iteration is exercised there too.
var boundedStandIn = map[string]bool{"C08": true, "C10": true, "C11": true, "C15": true, "C17": true}

// stepsCoveredElsewhere: every step clause of the loop is tagged only with properties that keep a bounded stand-in,
// so dropping the clauses with the loop (reported in the evidence notes) does not leave the behaviour unchecked.
func stepsCoveredElsewhere(lc *LoopContract) bool {
	for _, c := range lc.Steps {
		if len(c.Props) == 0 {
			return false
		}
		for _, p := range c.Props {
			if !boundedStandIn[p] {
				return false
			}
		}
	}
	return true
}

// droppedLoopHints: contract loops without step clauses that no current loop corresponds to (for the evidence notes).
func (e *Engine) droppedLoopHints(fn *ssa.Function, fc *FuncContract) []int {
	m, nOld, ok := e.loopAlign(fn)
	if !ok || nOld == len(m) {
		return nil
	}
	kept := map[int]bool{}
	for _, o := range m {
		if o >= 0 {
			kept[o+1] = true
		}
	}
	var out []int
	for n, lc := range fc.Loops {
		if n <= nOld && !kept[n] && lc != nil && (len(lc.Steps) == 0 || stepsCoveredElsewhere(lc)) && (len(lc.Invariants) > 0 || len(lc.Steps) > 0 || lc.Decreases != nil) {
			out = append(out, n)
		}
	}
	sort.Ints(out)
	return out
}

// forToRange: induction variables of counting loops of fn that are range loops now (snapshot: "for:int", current:
// "range:..."), mapped to the expression that keeps the clauses' meaning. Such a name is resolved this way even when a
// variable of that name still exists (in the range loop it is the element index, bound only inside the body, whereas
// the clauses mean "number of elements done").
func (e *Engine) forToRange(fn *ssa.Function) map[string]string {
	if m, ok := e.forRange[fn]; ok {
		return m
	}
	if e.nameSnap == nil {
		e.loadNameSnapshot()
	}
	m := map[string]string{}
	if lv := e.nameSnap["loopvars:"+e.oldKey(fn, e.ownKey(fn))]; len(lv) > 0 {
		cur := e.loopVars(fn)
		seen := map[string]int{}
		for _, o := range lv {
			if o[0] != "" {
				seen[o[0]]++
			}
		}
		al, _, alOK := e.loopAlign(fn)
		for k := 0; alOK && k < len(al); k++ {
			i, c := 2*al[k], 2*k // old position, current position
			if al[k] < 0 || i >= len(lv) || c >= len(cur) {
				continue
			}
			if lv[i][0] != "" && seen[lv[i][0]] == 1 && lv[i][1] == "for:int" && strings.HasPrefix(cur[c][1], "range:") {
				m[lv[i][0]] = fmt.Sprintf("rangeindex@%d+1", k+1)
			}
		}
	}
	if e.forRange == nil {
		e.forRange = map[*ssa.Function]map[string]string{}
	}
	e.forRange[fn] = m
	return m
}

// paramNames: receiver, parameters and named results of fn itself, in order.
func (e *Engine) paramNames(fn *ssa.Function) [][2]string {
	var out [][2]string
	qual := func(p *types.Package) string { return p.Name() }
	for _, p := range fn.Params {
		out = append(out, [2]string{p.Name(), types.TypeString(p.Type(), qual)})
	}
	res := fn.Signature.Results()
	for i := 0; i < res.Len(); i++ {
		out = append(out, [2]string{"result:" + res.At(i).Name(), types.TypeString(res.At(i).Type(), qual)})
	}
	return out
}

func (e *Engine) ownKey(fn *ssa.Function) string {
	if fn.Pkg == nil {
		return fn.String()
	}
	return fn.Pkg.Pkg.Name() + "." + fnKey(fn)
}

// renamedLocal: the current name of the variable that was called `name` when the contracts were written, or "".
// Parameters are matched by position (same count, same types). Other variables: the entries common to the old and
// the new declaration list (same name, same type) are set aside; the old name is resolved only if, among what is
// left, exactly one old and exactly one new variable have its type.
func (e *Engine) renamedLocal(fn *ssa.Function, name string) string {
	if e.nameSnap == nil {
		e.loadNameSnapshot()
	}
	if ps := e.nameSnap["params:"+e.oldKey(fn, e.ownKey(fn))]; len(ps) > 0 {
		cur := e.paramNames(fn)
		if len(cur) == len(ps) {
			same := true
			for i := range ps {
				if ps[i][1] != cur[i][1] {
					same = false
				}
			}
			if same {
				for i := range ps {
					if ps[i][0] == name && cur[i][0] != name && !strings.HasPrefix(name, "result:") {
						return cur[i][0]
					}
					if ps[i][0] == "result:"+name && cur[i][0] != ps[i][0] && cur[i][0] != "result:" {
						return strings.TrimPrefix(cur[i][0], "result:")
					}
				}
			}
		}
	}
	if lv := e.nameSnap["loopvars:"+e.oldKey(fn, e.ownKey(fn))]; len(lv) > 0 {
		curLV := e.loopVars(fn)
		al, _, alOK := e.loopAlign(fn)
		oldToCur := map[int]int{}
		for k, o := range al {
			if o >= 0 {
				oldToCur[o] = k
			}
		}
		hit := ""
		for i, o := range lv {
			if o[0] != name {
				continue
			}
			k, have := oldToCur[i/2]
			ci := 2*k + i%2
			if !alOK || !have || ci >= len(curLV) || (hit != "") {
				hit = ""
				break
			}
			c := curLV[ci]
			switch {
			case c[0] != "" && c[1] == o[1]:
				hit = c[0] // same kind of loop, same type: the variable loop k declares now
			case i%2 == 0 && o[1] == "for:int" && strings.HasPrefix(c[1], "range:"):
				// a counting loop turned into a range loop: at the loop head the old induction variable is the
				// number of elements done, i.e. the hidden range index (last element done) plus one
				hit = fmt.Sprintf("rangeindex@%d+1", k+1)
			default:
				hit = ""
			}
			if hit == "" {
				break
			}
		}
		if hit != "" && hit != name {
			return hit
		}
		// the reverse: a range loop turned into a counting loop (clauses say rangeindex)
		if name == "rangeindex" {
			cand := ""
			for i := 0; i+1 < len(lv) && i < len(curLV); i += 2 {
				if strings.HasPrefix(lv[i][1], "range:") && curLV[i][1] == "for:int" && curLV[i][0] != "" {
					if cand != "" {
						return ""
					}
					cand = curLV[i][0] + "-1"
				}
			}
			if cand != "" {
				return cand
			}
		}
	}
	snap := e.nameSnap[e.oldKey(topLevel(fn), e.topKey(fn))]
	cur := e.localNames(fn)
	if len(snap) == 0 {
		return ""
	}
	// set aside common entries (multiset of name+type)
	count := map[[2]string]int{}
	for _, c := range cur {
		count[c]++
	}
	var oldLeft [][2]string
	for _, o := range snap {
		if count[o] > 0 {
			count[o]--
		} else {
			oldLeft = append(oldLeft, o)
		}
	}
	count = map[[2]string]int{}
	for _, o := range snap {
		count[o]++
	}
	var newLeft [][2]string
	for _, c := range cur {
		if count[c] > 0 {
			count[c]--
		} else {
			newLeft = append(newLeft, c)
		}
	}
	T := ""
	nOld := 0
	for _, o := range oldLeft {
		if o[0] == name {
			if T != "" && T != o[1] {
				return ""
			}
			T = o[1]
		}
	}
	if T == "" {
		return ""
	}
	for _, o := range oldLeft {
		if o[1] == T {
			nOld++
		}
	}
	cand := ""
	nNew := 0
	for _, c := range newLeft {
		if c[1] == T {
			nNew++
			cand = c[0]
		}
	}
	if nOld == 1 && nNew == 1 {
		return cand
	}
	return ""
}
