package main

// Handlers used when a top-level image function is verified as a whole (dispatch level):
// image.NewRGBA/NewNRGBA/NewRGBA64 (A-IMG), parallel.RunWorkers (A-PAR: the worker closure's own
// preconditions over its captured variables become obligations at the call site, the memory it can
// reach is havocked), draw.Draw (assumed; the call must be the whole-destination Src copy).

import (
	"fmt"
	"go/ast"
	"go/token"
	"go/types"

	"golang.org/x/tools/go/ssa"
)

func init() {
	for _, n := range []string{"NRGBA", "RGBA", "RGBA64", "NRGBA64"} {
		n := n
		bpp := int64(4)
		if n == "RGBA64" || n == "NRGBA64" {
			bpp = 8
		}
		extHandlers["image.New"+n] = func(vc *VC, fr *Frame, st *State, args []Val, pos token.Pos) []Outcome {
			return vc.newImage(st, n, bpp, args[0])
		}
	}
	extHandlers["github.com/mandykoh/go-parallel.RunWorkers"] = extRunWorkers
	extHandlers["image/draw.Draw"] = extDrawDraw
}

// newImage: image.NewX(r) returns a fresh image with Rect == r, Stride == bpp*Dx(r) and a pixel
// buffer that the representation invariant (A-IMG) relates to them; contents are zero.
func (vc *VC) newImage(st *State, name string, bpp int64, r Val) []Outcome {
	vc.assume("A-IMG")
	vc.assume("A-MEM")
	rect := r.(StructVal)
	var T types.Type
	for _, p := range vc.eng.prog.AllPackages() {
		if p.Pkg.Path() == "image" {
			T = p.Pkg.Scope().Lookup(name).Type()
		}
	}
	if T == nil {
		panic(execError{"image." + name + " not loaded"})
	}
	is := vc.intSort(64)
	c := vc.newCell("new"+name, "heap", T)
	arr := vc.newCell("new"+name+".pix", "heap", nil)
	st.mem[arr] = ConstArray(ArrSort(is, vc.byteSort()), vc.zeroByte())
	ln := vc.freshTerm("new"+name+".pixlen", is)
	ln.Signed = true
	st.Fact(vc.iLe(vc.idx(0), ln, true))
	st.Fact(vc.iLe(ln, vc.idxBig(maxLenBound), true))
	mn, mx := rect.F[0].(StructVal), rect.F[1].(StructVal)
	dx := vc.iSub(mx.F[0].(Term), mn.F[0].(Term))
	stride := vc.iMul(vc.idx(bpp), dx)
	pix := SliceVal{Base: PtrVal{Cell: arr}, Off: vc.idx(0), Len: ln, Cap: ln, IsNil: TFalse()}
	st.mem[c] = StructVal{F: []Val{pix, stride, rect}}
	return one(st, PtrVal{Cell: c})
}

// extRunWorkers: parallel.RunWorkers(n, f) runs f(0,n') ... f(n'-1,n') for some 1 <= n' (A-PAR).
// The closure is verified separately against its own contract; here its preconditions are
// established for arbitrary 0 <= workerNum < workerCount <= 65536, and its effects are havocked.
func extRunWorkers(vc *VC, fr *Frame, st *State, args []Val, pos token.Pos) []Outcome {
	vc.assume("A-PAR")
	fv, ok := args[1].(FuncVal)
	if !ok || fv.Fn == nil {
		panic(execError{"parallel.RunWorkers with a function value that is not a closure literal"})
	}
	fn := fv.Fn
	fc := vc.eng.contractFor(fn, vc.mode)
	is := vc.intSort(64)
	wn := vc.freshTerm("workerNum", is)
	wn.Signed = true
	wc := vc.freshTerm("workerCount", is)
	wc.Signed = true
	s1 := st.Clone()
	s1.Assume(vc.iLe(vc.idx(0), wn, true))
	s1.Assume(vc.iLt(wn, wc, true))
	s1.Assume(vc.iLe(wc, vc.idx(0x10000), true))
	root := fr
	for root.parent != nil {
		root = root.parent
	}
	inScenario := !(vc.curCase == "" && root.contract != nil && len(root.contract.Scenarios) > 0)
	if fc != nil && !inScenario {
		// the run without preconditions only establishes safety of the dispatcher itself; the closure's
		// preconditions are established in the scenario runs, under their well-formedness assumptions
	} else if fc != nil {
		cf := &Frame{fn: fn, env: map[ssa.Value]Val{}, ghost: map[string]Val{}, parent: fr}
		for i, v := range fn.FreeVars {
			if i < len(fv.Bind) {
				cf.env[v] = fv.Bind[i]
			}
		}
		if len(fn.Params) == 2 {
			cf.env[fn.Params[0]] = wn
			cf.env[fn.Params[1]] = wc
		}
		cf.entrySt = s1
		for _, c := range fc.Clauses {
			if c.Kind != "requires" || c.Case != "" {
				continue
			}
			goal := vc.evalSpecTerm(cf, s1, c.Expr, nil)
			vc.addObligation(s1, "pre", "worker-"+fnKeyShort(fn.Name())+"."+c.Label, vc.posOf(pos), goal, vc.curProps)
		}
	} else {
		vc.notes = append(vc.notes, "worker closure "+fn.Name()+" has no contract: its preconditions are not established at the call site")
	}
	// effects: every pixel buffer reachable from the captured variables may have changed
	for _, b := range fv.Bind {
		vc.havocPixelBuffers(st, b, 0)
	}
	return one(st)
}

func fnKeyShort(n string) string { return n }

func (vc *VC) havocPixelBuffers(st *State, v Val, depth int) {
	if depth > 3 {
		return
	}
	switch x := v.(type) {
	case PtrVal:
		if x.Cell == nil {
			return
		}
		if pv, ok := st.mem[x.Cell]; ok {
			vc.havocPixelBuffers(st, pv, depth+1)
		}
	case IfaceVal:
		vc.havocPixelBuffers(st, x.V, depth+1)
	case StructVal:
		for _, f := range x.F {
			if sl, ok := f.(SliceVal); ok && sl.Base.Cell != nil {
				if arr, ok := st.mem[sl.Base.Cell].(Term); ok && arr.S.K == KArr {
					st.mem[sl.Base.Cell] = vc.freshTerm("pixels", arr.S)
					st.extWrites++
				}
			}
		}
	}
}

// extDrawDraw: draw.Draw(dst, r, src, sp, op) is assumed to do what its documentation says. What
// the caller owes for "the result equals draw.Draw with the Src operator over the whole image" is
// r == dst.Bounds(), sp == src.Bounds().Min and op == draw.Src: three obligations at the call site.
func extDrawDraw(vc *VC, fr *Frame, st *State, args []Val, pos token.Pos) []Outcome {
	vc.assume("A-IMG")
	if len(args) != 5 {
		panic(execError{"draw.Draw arity"})
	}
	site := vc.posOf(pos)
	env := &SpecEnv{vc: vc, fr: fr, st: st, old: st}
	rectOf := func(v Val) (StructVal, bool) {
		switch x := v.(type) {
		case IfaceVal:
			if p, ok := x.V.(PtrVal); ok && p.Cell != nil {
				if sv, ok := st.mem[p.Cell].(StructVal); ok && len(sv.F) >= 3 {
					if r, ok := sv.F[len(sv.F)-1].(StructVal); ok {
						return r, true
					}
				}
			}
		case SymIface:
			ms := types.NewMethodSet(x.Type)
			sel := ms.Lookup(nil, "Bounds")
			if sel == nil {
				return StructVal{}, false
			}
			mf := sel.Obj().(*types.Func)
			res := vc.symMethodResults(st, x, mf.FullName(), mf.Type().(*types.Signature), nil)
			if len(res) == 1 {
				if r, ok := res[0].(StructVal); ok {
					return r, true
				}
			}
		}
		return StructVal{}, false
	}
	dr, ok1 := rectOf(args[0])
	sr, ok2 := rectOf(args[2])
	r, ok3 := args[1].(StructVal)
	sp, ok4 := args[3].(StructVal)
	if !ok1 || !ok2 || !ok3 || !ok4 {
		panic(execError{fmt.Sprintf("draw.Draw: arguments outside the supported subset (%T, %T)", args[0], args[2])})
	}
	vc.addObligation(st, "pre", "draw-covers-destination", site, env.sameVal(r, dr), vc.curProps)
	vc.addObligation(st, "pre", "draw-from-source-origin", site, env.sameVal(sp, sr.F[0]), vc.curProps)
	op, ok := args[4].(Term)
	if !ok {
		panic(execError{"draw.Draw: operator"})
	}
	// draw.Over == 0, draw.Src == 1
	vc.addObligation(st, "pre", "draw-operator-is-src", site, Eq(op, vc.constLike(op, 1)), vc.curProps)
	vc.havocPixelBuffers(st, args[0], 0)
	return one(st)
}

func (vc *VC) constLike(t Term, v int64) Term {
	if t.S.K == KBV {
		return BVConstI(v, t.S.N, true)
	}
	return vc.idx(v)
}

// delegateCall: the enclosing function's contract says `delegates F(e1, ..., en)`. A call of F from its body
// is checked argument by argument against the expected expressions (evaluated at entry) and not executed:
// F has its own contract and its own check.
func (vc *VC) delegateCall(fr *Frame, st *State, fn *ssa.Function, args []Val, pos token.Pos) ([]Outcome, bool) {
	ce, ok := fr.contract.Delegates.Go.(*ast.CallExpr)
	if !ok {
		panic(specError{"delegates: not a call expression"})
	}
	want := exprString(ce.Fun)
	name := fn.Name()
	if fn.Pkg != nil {
		name = fn.Pkg.Pkg.Name() + "." + fn.Name()
	}
	if want != name && want != fn.Name() {
		return nil, false
	}
	st.delegCalls++
	props := vc.curProps
	env := &SpecEnv{vc: vc, fr: fr, st: st, old: fr.entrySt, pkg: fr.fn.Pkg}
	if env.old == nil {
		env.old = st
	}
	if len(ce.Args) != len(args) {
		vc.addObligation(st, "post", "delegates.arity", vc.posOf(pos), TFalse(), props)
	} else {
		for i, a := range ce.Args {
			if id, ok := a.(*ast.Ident); ok && id.Name == "_" {
				continue // not constrained by the property (e.g. the degree of parallelism)
			}
			exp := env.expr(a, fr.contract.Delegates.Subs)
			vc.addObligation(st, "post", fmt.Sprintf("delegates.argument-%d", i+1), vc.posOf(pos), vc.sameArg(exp.V, args[i]), props)
		}
	}
	var rets []Val
	res := fn.Signature.Results()
	for i := 0; i < res.Len(); i++ {
		rets = append(rets, vc.fresh(res.At(i).Type(), fmt.Sprintf("%s.result%d", fn.Name(), i), st))
	}
	return one(st, rets...), true
}

func (vc *VC) sameArg(a, b Val) Term {
	switch x := a.(type) {
	case FuncVal:
		y, ok := b.(FuncVal)
		return TBool(ok && x.Fn != nil && x.Fn == y.Fn && len(x.Bind) == 0 && len(y.Bind) == 0)
	case SymIface:
		y, ok := b.(SymIface)
		if !ok {
			return TFalse()
		}
		return Eq(x.T, y.T)
	case Term:
		y, ok := b.(Term)
		if !ok {
			return TFalse()
		}
		return Eq(x, y)
	}
	return vc.eqVal(a, b)
}
