package main

// Engine: loads /repo (tag verif), builds SSA, parses contract files, indexes loops.

import (
	"fmt"
	"go/ast"
	"go/token"
	"go/types"
	"os"
	"path/filepath"
	"regexp"
	"sort"
	"strconv"
	"strings"

	"golang.org/x/tools/go/packages"
	"golang.org/x/tools/go/ssa"
	"golang.org/x/tools/go/ssa/ssautil"
)

type CaseDef struct {
	Name string
	LHS  *SpecExpr
	RHS  *SpecExpr
}

type Clause struct {
	Kind  string // requires, ensures, panics_when
	Case  string // checked only in the named case run
	Label string
	Props []string
	Modes []string // empty = all
	Expr  *SpecExpr
	Line  string
}

type LoopContract struct {
	Steps      []*Clause // per-iteration contracts: checked at the back edge, may use prev(...)
	Invariants []*Clause
	Decreases  *SpecExpr
	Props      []string
}

type Lemma struct {
	Name   string
	Props  []string
	Mode   string
	Params []specParam
	Expr   *SpecExpr
	Pkg    *ssa.Package
	Line   string
	Tier   string
	Uses   []string // extra packages whose initialisation the lemma needs
}

type ghostFun struct {
	Name string
	Args []string
	Res  string
}

type specParam struct {
	Name string
	Type string
}

type FuncContract struct {
	Key        string
	Fn         *ssa.Function
	Modular    bool
	ModularModes []string
	ModularAll bool
	Opaque     bool
	Pure       bool
	Recovers   bool
	MayPanic   bool
	Clauses    []*Clause
	Loops      map[int]*LoopContract
	AllocBound *SpecExpr
	Ghosts     []specParam
	GhostFuns  []ghostFun
	Scenarios  []string
	ThoroughOnly map[string]bool // scenarios run in the thorough tier only
	Cases      []CaseDef
	Modifies   []string
	Props      []string
	NoFrame    bool
	DynTypes   []dynDef
	Aliases    []dynDef // Param and Type hold the two names
	Delegates  *SpecExpr
	DelegProps []string
}

type dynDef struct{ Case, Param, Type string }

type RawContract struct {
	Key     string
	Pkg     string
	Lines   []rawLine
	FileLoc string
}

type rawLine struct {
	Modes []string
	Text  string
}

type LoopInfo struct {
	Fn      *ssa.Function
	Header  *ssa.BasicBlock
	Body    map[*ssa.BasicBlock]bool
	Ordinal int
}

type PkgInv struct {
	Label string
	Props []string
	Expr  *SpecExpr
	Pkg   *ssa.Package
	Modes []string
}

type Engine struct {
	repoDir   string
	fset      *token.FileSet
	pkgs      []*packages.Package
	prog      *ssa.Program
	ssaPkgs   map[string]*ssa.Package // by path
	byName    map[string]*ssa.Package // by package name (repo packages only)
	pkgOf     map[*types.Package]*packages.Package
	modPath   string
	fnByKey   map[string]*ssa.Function // "pkgname.Key"
	raw       map[string]*RawContract
	contracts map[string]*FuncContract // key+"@"+mode
	lemmas    []*Lemma
	invs      []*PkgInv
	constVars map[string]bool // pkgname.Var declared const_after_init
	loops     map[*ssa.Function][]*LoopInfo
	recoverFn map[*ssa.Function]bool
	forceInline map[*ssa.Function]bool
	inlineExternal map[string]bool
	unrollLimit int
	forRange    map[*ssa.Function]map[string]string
	loopAl      map[*ssa.Function]loopAlignment
	tier      string
	nameSnap  map[string][][2]string
	dryStop   []*LoopInfo
	requireAllocBounds bool
	contractFiles []string
	parseErrors []string
}

func loadEngine(repoDir string) (*Engine, error) {
	cfg := &packages.Config{Mode: packages.LoadAllSyntax | packages.NeedModule, Dir: repoDir, BuildFlags: []string{"-tags=verif"},
		Env: append(os.Environ(), "GOFLAGS=-mod=mod", "GOPROXY=off", "GOSUMDB=off", "GOTOOLCHAIN=local")}
	pkgs, err := packages.Load(cfg, "./...")
	if err != nil {
		return nil, err
	}
	var errs []string
	packages.Visit(pkgs, nil, func(p *packages.Package) {
		for _, e := range p.Errors {
			errs = append(errs, e.Error())
		}
	})
	if len(errs) > 0 {
		return nil, fmt.Errorf("load errors: %s", strings.Join(errs, "; "))
	}
	prog, _ := ssautil.AllPackages(pkgs, ssa.InstantiateGenerics|ssa.GlobalDebug)
	prog.Build()
	e := &Engine{repoDir: repoDir, pkgs: pkgs, prog: prog, ssaPkgs: map[string]*ssa.Package{}, byName: map[string]*ssa.Package{},
		pkgOf: map[*types.Package]*packages.Package{}, fnByKey: map[string]*ssa.Function{}, raw: map[string]*RawContract{},
		contracts: map[string]*FuncContract{}, constVars: map[string]bool{}, loops: map[*ssa.Function][]*LoopInfo{},
		recoverFn: map[*ssa.Function]bool{}, forceInline: map[*ssa.Function]bool{}, inlineExternal: stdlibInline(), unrollLimit: 40}
	if len(pkgs) > 0 {
		e.fset = pkgs[0].Fset
	}
	for _, p := range pkgs {
		if p.Module != nil {
			e.modPath = p.Module.Path
		}
		sp := prog.Package(p.Types)
		if sp == nil {
			continue
		}
		e.ssaPkgs[p.PkgPath] = sp
		e.byName[p.Name] = sp
		e.pkgOf[p.Types] = p
	}
	for _, sp := range e.byName {
		e.indexFunctions(sp)
	}
	for _, p := range pkgs {
		e.parseContractFiles(p)
	}
	return e, nil
}

func (e *Engine) isRepoPkg(p *types.Package) bool {
	if p == nil {
		return false
	}
	return p.Path() == e.modPath || strings.HasPrefix(p.Path(), e.modPath+"/")
}

func fnKey(fn *ssa.Function) string {
	if fn.Parent() != nil {
		// closure: name already of the form Parent$N, but methods need the receiver prefix
		p := fn.Parent()
		suffix := strings.TrimPrefix(fn.Name(), p.Name())
		return fnKey(p) + suffix
	}
	if recv := fn.Signature.Recv(); recv != nil {
		t := recv.Type()
		if pt, ok := t.(*types.Pointer); ok {
			t = pt.Elem()
		}
		if n, ok := t.(*types.Named); ok {
			return n.Obj().Name() + "." + fn.Name()
		}
	}
	return fn.Name()
}

func (e *Engine) indexFunctions(sp *ssa.Package) {
	var add func(fn *ssa.Function)
	add = func(fn *ssa.Function) {
		if fn == nil {
			return
		}
		e.fnByKey[sp.Pkg.Name()+"."+fnKey(fn)] = fn
		for _, a := range fn.AnonFuncs {
			add(a)
		}
	}
	for _, m := range sp.Members {
		switch x := m.(type) {
		case *ssa.Function:
			add(x)
		case *ssa.Type:
			for _, T := range []types.Type{x.Type(), types.NewPointer(x.Type())} {
				ms := e.prog.MethodSets.MethodSet(T)
				for i := 0; i < ms.Len(); i++ {
					f := e.prog.MethodValue(ms.At(i))
					if f != nil && f.Pkg == sp && f.Synthetic == "" {
						add(f)
					}
				}
			}
		}
	}
}

func (e *Engine) lookupFn(pkgName, key string) *ssa.Function {
	return e.fnByKey[pkgName+"."+key]
}

var propsRe = regexp.MustCompile(`^\[([A-Za-z0-9_, ]+)\]\s*`)

func (e *Engine) parseContractFiles(p *packages.Package) {
	for i, f := range p.Syntax {
		name := p.CompiledGoFiles[i]
		if !strings.HasSuffix(name, "_verif.go") {
			continue
		}
		e.contractFiles = append(e.contractFiles, strings.TrimPrefix(name, e.repoDir+"/"))
		var lines []string
		for _, cg := range f.Comments {
			for _, c := range cg.List {
				t := c.Text
				if strings.HasPrefix(t, "//@") {
					lines = append(lines, strings.TrimPrefix(t, "//@"))
				}
			}
		}
		e.parseContractLines(p, filepath.Base(name), lines)
	}
}

func splitProps(s string) ([]string, string) {
	m := propsRe.FindStringSubmatch(s)
	if m == nil {
		return nil, s
	}
	var ps []string
	for _, p := range strings.Split(m[1], ",") {
		ps = append(ps, strings.TrimSpace(p))
	}
	return ps, s[len(m[0]):]
}

func splitLabel(s string) (string, string) {
	i := strings.Index(s, ":")
	if i < 0 {
		return "", s
	}
	lab := strings.TrimSpace(s[:i])
	for _, r := range lab {
		if !(r == '_' || r == '-' || r == '.' || r >= '0' && r <= '9' || r >= 'a' && r <= 'z' || r >= 'A' && r <= 'Z') {
			return "", s
		}
	}
	if lab == "" {
		return "", s
	}
	// avoid eating "forall x int :: ..." (label followed by another colon)
	if strings.HasPrefix(s[i:], "::") {
		return "", s
	}
	return lab, strings.TrimSpace(s[i+1:])
}

func (e *Engine) parseContractLines(p *packages.Package, file string, lines []string) {
	sp := e.ssaPkgs[p.PkgPath]
	var cur *FuncContract
	var curModes []string
	fail := func(msg, line string) {
		e.parseErrors = append(e.parseErrors, fmt.Sprintf("%s/%s: %s: %q", p.Name, file, msg, line))
	}
	// join continuation lines (ending with backslash)
	var joined []string
	acc := ""
	for _, l := range lines {
		t := strings.TrimRight(l, " \t")
		if strings.HasSuffix(t, "\\") {
			acc += strings.TrimSuffix(t, "\\") + " "
			continue
		}
		joined = append(joined, acc+t)
		acc = ""
	}
	for _, l := range joined {
		t := strings.TrimSpace(l)
		if t == "" || strings.HasPrefix(t, "#") {
			continue
		}
		word, rest := t, ""
		if i := strings.IndexAny(t, " \t"); i >= 0 {
			word, rest = t[:i], strings.TrimSpace(t[i+1:])
		}
		switch word {
		case "func":
			key := strings.Fields(rest)[0]
			fn := e.lookupFn(p.Name, key)
			if fn == nil && !strings.ContainsAny(key, ".$") && p.Types != nil {
				// a private function renamed since the contracts were written (names.go)
				if alt := e.renamedPkgObject(p.Types, key); alt != "" {
					if f2 := e.lookupFn(p.Name, alt); f2 != nil {
						fn, key = f2, alt
					}
				}
			}
			cur = &FuncContract{Key: p.Name + "." + key, Fn: fn, Loops: map[int]*LoopContract{}}
			curModes = nil
			if fn == nil {
				fail("contract for unknown function (orphaned)", t)
				cur = &FuncContract{Key: p.Name + "." + key, Loops: map[int]*LoopContract{}}
			}
			if old, ok := e.contracts[cur.Key]; ok {
				cur = old
			} else {
				e.contracts[cur.Key] = cur
			}
		case "mode":
			curModes = strings.Fields(rest)
			if len(curModes) == 1 && curModes[0] == "all" {
				curModes = nil
			}
		case "modular":
			cur.Modular = true
			cur.ModularModes = append(cur.ModularModes, curModes...)
			if len(curModes) == 0 {
				cur.ModularAll = true
			}
		case "opaque":
			cur.Opaque = true
			cur.Modular = true
			cur.Pure = true
		case "pure":
			cur.Pure = true
		case "recovers":
			cur.Recovers = true
		case "may_panic":
			// panics of this function are recovered by its callers (checked structurally)
			cur.MayPanic = true
		case "noframe":
			cur.NoFrame = true
		case "modifies":
			cur.Modifies = append(cur.Modifies, strings.Fields(rest)...)
		case "scenario":
			cur.Scenarios = append(cur.Scenarios, strings.Fields(rest)...)
		case "thorough_scenario":
			// verified in the thorough tier only
			cur.Scenarios = append(cur.Scenarios, strings.Fields(rest)...)
			if cur.ThoroughOnly == nil {
				cur.ThoroughOnly = map[string]bool{}
			}
			for _, n := range strings.Fields(rest) {
				cur.ThoroughOnly[n] = true
			}
		case "ghostfun":
			// ghostfun NAME ARGTYPE... RESTYPE
			fs := strings.Fields(rest)
			if len(fs) < 2 {
				fail("ghostfun NAME argtypes... restype", t)
				continue
			}
			cur.GhostFuns = append(cur.GhostFuns, ghostFun{Name: fs[0], Args: fs[1 : len(fs)-1], Res: fs[len(fs)-1]})
		case "ghost":
			fs := strings.Fields(rest)
			if len(fs) != 2 {
				fail("ghost needs name and type", t)
				continue
			}
			cur.Ghosts = append(cur.Ghosts, specParam{fs[0], fs[1]})
		case "delegates":
			// delegates pkg.F(args...): the function body is exactly one call of F with these arguments
			e, err := parseSpec(rest)
			if err != nil || e.Kind != "go" {
				fail("delegates needs a call expression", t)
				continue
			}
			cur.Delegates = e
			cur.DelegProps = parseTagsOf(rest)
		case "alias":
			// alias SCENARIO A B: in that scenario run the captured variable (or parameter) B is the same object as A
			fs := strings.Fields(rest)
			if len(fs) != 3 {
				fail("alias needs scenario and two names", t)
				continue
			}
			cur.Aliases = append(cur.Aliases, dynDef{Case: fs[0], Param: fs[1], Type: fs[2]})
		case "dyn":
			// dyn SCENARIO PARAM TYPE: in that scenario run the interface parameter holds a value of this dynamic type
			fs := strings.Fields(rest)
			if len(fs) != 3 {
				fail("dyn needs scenario, parameter and type", t)
				continue
			}
			cur.DynTypes = append(cur.DynTypes, dynDef{Case: fs[0], Param: fs[1], Type: fs[2]})
		case "case":
			// case NAME: lhs == constant   (the function is verified once more with lhs bound to the constant)
			nm, r := splitLabel(rest)
			k := topLevelIndex(r, "==")
			if nm == "" || k < 0 {
				fail("case syntax: case NAME: expr == constant", t)
				continue
			}
			l, err1 := parseSpec(r[:k])
			rr, err2 := parseSpec(r[k+2:])
			if err1 != nil || err2 != nil {
				fail("case parse error", t)
				continue
			}
			cur.Cases = append(cur.Cases, CaseDef{Name: nm, LHS: l, RHS: rr})
		case "requires", "ensures", "panics_when", "assumes":
			if cur == nil {
				fail("clause outside func", t)
				continue
			}
			props, r := splitProps(rest)
			caseName := ""
			if strings.HasPrefix(r, "case=") {
				fs := strings.SplitN(r, " ", 2)
				caseName = strings.TrimPrefix(fs[0], "case=")
				r = strings.TrimSpace(fs[1])
			}
			label, r := splitLabel(r)
			se, err := parseSpec(r)
			if err != nil {
				fail("spec parse error: "+err.Error(), t)
				continue
			}
			if label == "" {
				label = fmt.Sprintf("%s%d", word, len(cur.Clauses)+1)
			}
			cur.Clauses = append(cur.Clauses, &Clause{Kind: word, Case: caseName, Label: label, Props: props, Modes: curModes, Expr: se, Line: t})
		case "alloc_bound":
			se, err := parseSpec(rest)
			if err != nil {
				fail("spec parse error: "+err.Error(), t)
				continue
			}
			cur.AllocBound = se
		case "loop":
			fs := strings.SplitN(rest, " ", 3)
			if len(fs) < 3 {
				fail("loop clause needs ordinal, kind, expr", t)
				continue
			}
			n, err := strconv.Atoi(fs[0])
			if err != nil {
				fail("bad loop ordinal", t)
				continue
			}
			lc := cur.Loops[n]
			if lc == nil {
				lc = &LoopContract{}
				cur.Loops[n] = lc
			}
			switch fs[1] {
			case "invariant":
				props, r := splitProps(fs[2])
				invCase := ""
				if strings.HasPrefix(r, "case=") {
					f2 := strings.SplitN(r, " ", 2)
					invCase = strings.TrimPrefix(f2[0], "case=")
					r = strings.TrimSpace(f2[1])
				}
				label, r := splitLabel(r)
				se, err := parseSpec(r)
				if err != nil {
					fail("spec parse error: "+err.Error(), t)
					continue
				}
				if label == "" {
					label = fmt.Sprintf("inv%d", len(lc.Invariants)+1)
				}
				lc.Invariants = append(lc.Invariants, &Clause{Kind: "invariant", Case: invCase, Label: label, Props: props, Modes: curModes, Expr: se, Line: t})
			case "step":
				props, r := splitProps(fs[2])
				label, r := splitLabel(r)
				se, err := parseSpec(r)
				if err != nil {
					fail("spec parse error: "+err.Error(), t)
					continue
				}
				if label == "" {
					label = fmt.Sprintf("step%d", len(lc.Steps)+1)
				}
				lc.Steps = append(lc.Steps, &Clause{Kind: "step", Label: label, Props: props, Modes: curModes, Expr: se, Line: t})
			case "decreases":
				se, err := parseSpec(fs[2])
				if err != nil {
					fail("spec parse error: "+err.Error(), t)
					continue
				}
				lc.Decreases = se
			default:
				fail("unknown loop clause", t)
			}
		case "lemma":
			// lemma [props] name mode=M tier=T (params): expr
			props, r := splitProps(rest)
			i := strings.Index(r, "(")
			j := strings.Index(r, "):")
			if i < 0 || j < i {
				fail("lemma syntax: name [mode=M] (params): expr", t)
				continue
			}
			head := strings.Fields(r[:i])
			lm := &Lemma{Name: head[0], Props: props, Mode: "ieee", Pkg: sp, Line: t, Tier: "quick"}
			for _, h := range head[1:] {
				if strings.HasPrefix(h, "mode=") {
					lm.Mode = strings.TrimPrefix(h, "mode=")
				}
				if strings.HasPrefix(h, "tier=") {
					lm.Tier = strings.TrimPrefix(h, "tier=")
				}
				if strings.HasPrefix(h, "uses=") {
					lm.Uses = strings.Split(strings.TrimPrefix(h, "uses="), ",")
				}
			}
			for _, ps := range strings.Split(r[i+1:j], ",") {
				fs := strings.Fields(ps)
				if len(fs) == 0 {
					continue
				}
				if len(fs) != 2 {
					fail("lemma param needs name and type", t)
					continue
				}
				lm.Params = append(lm.Params, specParam{fs[0], fs[1]})
			}
			se, err := parseSpec(strings.TrimSpace(r[j+2:]))
			if err != nil {
				fail("spec parse error: "+err.Error(), t)
				continue
			}
			lm.Expr = se
			e.lemmas = append(e.lemmas, lm)
		case "var":
			fs := strings.Fields(rest)
			if len(fs) == 2 && fs[1] == "const_after_init" {
				e.constVars[p.Name+"."+fs[0]] = true
			} else {
				fail("var clause: NAME const_after_init", t)
			}
		case "inv":
			props, r := splitProps(rest)
			label, r := splitLabel(r)
			se, err := parseSpec(r)
			if err != nil {
				fail("spec parse error: "+err.Error(), t)
				continue
			}
			e.invs = append(e.invs, &PkgInv{Label: label, Props: props, Expr: se, Pkg: sp, Modes: curModes})
		default:
			fail("unknown contract keyword "+word, t)
		}
	}
}

func modeMatch(modes []string, m string) bool {
	if len(modes) == 0 {
		return true
	}
	for _, x := range modes {
		if x == m {
			return true
		}
	}
	return false
}

// contractFor returns the contract of fn restricted to the clauses of the given mode.
func (e *Engine) contractFor(fn *ssa.Function, mode Mode) *FuncContract {
	if fn.Pkg == nil {
		return nil
	}
	fc := e.contracts[fn.Pkg.Pkg.Name()+"."+fnKey(fn)]
	if fc == nil || fc.Fn != fn {
		return nil
	}
	k := fc.Key + "@" + mode.Name
	if c, ok := e.contracts[k]; ok {
		return c
	}
	n := *fc
	n.Clauses = nil
	if fc.Modular && !fc.ModularAll && !fc.Opaque {
		n.Modular = modeMatch(fc.ModularModes, mode.Name) && len(fc.ModularModes) > 0
	}
	for _, c := range fc.Clauses {
		if modeMatch(c.Modes, mode.Name) {
			n.Clauses = append(n.Clauses, c)
		}
	}
	n.Loops = map[int]*LoopContract{}
	for i, lc := range fc.Loops {
		nl := &LoopContract{Decreases: lc.Decreases, Props: lc.Props, Steps: lc.Steps}
		for _, c := range lc.Invariants {
			if modeMatch(c.Modes, mode.Name) {
				nl.Invariants = append(nl.Invariants, c)
			}
		}
		n.Loops[i] = nl
	}
	e.contracts[k] = &n
	return &n
}

func (e *Engine) loopInfo(fn *ssa.Function, b *ssa.BasicBlock) *LoopInfo {
	ls, ok := e.loops[fn]
	if !ok {
		ls = e.computeLoops(fn)
		e.loops[fn] = ls
	}
	for _, l := range ls {
		if l.Header == b {
			return l
		}
	}
	return nil
}

func (e *Engine) computeLoops(fn *ssa.Function) []*LoopInfo {
	var res []*LoopInfo
	byHeader := map[*ssa.BasicBlock]*LoopInfo{}
	for _, b := range fn.Blocks {
		for _, s := range b.Succs {
			if s.Dominates(b) {
				li := byHeader[s]
				if li == nil {
					li = &LoopInfo{Fn: fn, Header: s, Body: map[*ssa.BasicBlock]bool{s: true}}
					byHeader[s] = li
					res = append(res, li)
				}
				// natural loop of back edge b -> s
				stack := []*ssa.BasicBlock{b}
				for len(stack) > 0 {
					x := stack[len(stack)-1]
					stack = stack[:len(stack)-1]
					if li.Body[x] {
						continue
					}
					li.Body[x] = true
					stack = append(stack, x.Preds...)
				}
			}
		}
	}
	// ordinal by source position of the header (falls back to block index)
	sort.Slice(res, func(i, j int) bool {
		pi, pj := blockPos(res[i].Header), blockPos(res[j].Header)
		if pi != pj {
			return pi < pj
		}
		return res[i].Header.Index < res[j].Header.Index
	})
	for i, l := range res {
		l.Ordinal = i + 1
	}
	return res
}

func blockPos(b *ssa.BasicBlock) token.Pos {
	// position of the loop: smallest valid position among instructions in the header
	var best token.Pos
	for _, ins := range b.Instrs {
		if p := ins.Pos(); p.IsValid() && (best == 0 || p < best) {
			best = p
		}
	}
	if best == 0 {
		for _, s := range b.Succs {
			for _, ins := range s.Instrs {
				if p := ins.Pos(); p.IsValid() && (best == 0 || p < best) {
					best = p
				}
			}
		}
	}
	return best
}

// hasRecover: fn defers a closure that calls recover().
func (e *Engine) hasRecover(fn *ssa.Function) bool {
	if v, ok := e.recoverFn[fn]; ok {
		return v
	}
	res := false
	for _, b := range fn.Blocks {
		for _, ins := range b.Instrs {
			d, ok := ins.(*ssa.Defer)
			if !ok {
				continue
			}
			if mc, ok := d.Call.Value.(*ssa.MakeClosure); ok {
				if callsRecover(mc.Fn.(*ssa.Function)) {
					res = true
				}
			}
			if f, ok := d.Call.Value.(*ssa.Function); ok && callsRecover(f) {
				res = true
			}
		}
	}
	e.recoverFn[fn] = res
	return res
}

func callsRecover(fn *ssa.Function) bool {
	for _, b := range fn.Blocks {
		for _, ins := range b.Instrs {
			if c, ok := ins.(*ssa.Call); ok {
				if bi, ok := c.Call.Value.(*ssa.Builtin); ok && bi.Name() == "recover" {
					return true
				}
			}
		}
	}
	return false
}

// lookupType resolves a type name usable in specs (universe, package-local or pkg.Name).
func (e *Engine) lookupType(pkg *ssa.Package, name string) types.Type {
	if strings.HasPrefix(name, "*") {
		t := e.lookupType(pkg, name[1:])
		if t == nil {
			return nil
		}
		return types.NewPointer(t)
	}
	if strings.HasPrefix(name, "[]") {
		t := e.lookupType(pkg, name[2:])
		if t == nil {
			return nil
		}
		return types.NewSlice(t)
	}
	if i := strings.Index(name, "."); i >= 0 {
		p := e.findPkgByName(pkg, name[:i])
		if p == nil {
			return nil
		}
		if o := p.Scope().Lookup(name[i+1:]); o != nil {
			if tn, ok := o.(*types.TypeName); ok {
				return tn.Type()
			}
		}
		return nil
	}
	if o := types.Universe.Lookup(name); o != nil {
		if tn, ok := o.(*types.TypeName); ok {
			return tn.Type()
		}
	}
	if pkg != nil {
		if o := pkg.Pkg.Scope().Lookup(name); o != nil {
			if tn, ok := o.(*types.TypeName); ok {
				return tn.Type()
			}
		}
	}
	return nil
}

func (e *Engine) findPkgByName(from *ssa.Package, name string) *types.Package {
	if from != nil {
		for _, imp := range from.Pkg.Imports() {
			if imp.Name() == name {
				return imp
			}
		}
	}
	if sp, ok := e.byName[name]; ok {
		return sp.Pkg
	}
	for _, p := range e.prog.AllPackages() {
		if p.Pkg.Name() == name {
			return p.Pkg
		}
	}
	return nil
}

var _ = ast.Inspect


// stdlibInline: integer-only standard library functions whose contract is derived by
// running the same generator on their source (assumption A-STDSRC: the SSA of the installed
// standard library is the code that runs).
func stdlibInline() map[string]bool {
	m := map[string]bool{}
	for _, f := range []string{
		"(*image.RGBA64).RGBA64At", "(*image.RGBA64).SetRGBA64", "(*image.NRGBA).NRGBAAt", "(*image.NRGBA).SetNRGBA",
		"(*image.RGBA).RGBAAt", "(*image.RGBA).SetRGBA",
		"(image.Point).In", "(image/color.NRGBA).RGBA", "(image/color.RGBA64).RGBA", "(image/color.RGBA).RGBA",
		"(*image.YCbCr).YCbCrAt",
		"image/color.YCbCrToRGB", "(image/color.YCbCr).RGBA",
		"(image.Rectangle).Dx", "(image.Rectangle).Dy", "(image.Rectangle).Empty", "image.Rect", "image.Pt",
		"(encoding/binary.bigEndian).Uint16", "(encoding/binary.bigEndian).Uint32", "(encoding/binary.bigEndian).Uint64",
		"(encoding/binary.littleEndian).Uint16", "(encoding/binary.littleEndian).Uint32", "(encoding/binary.littleEndian).Uint64", "(image.Rectangle).Size", "(image.Point).Add", "(image.Point).Sub", "(image.Rectangle).Add", "(image.Rectangle).Sub", "(image.Rectangle).Canon",
		"(*image.RGBA64).Bounds", "(*image.NRGBA64).Bounds", "(*image.RGBA).Bounds", "(*image.NRGBA).Bounds", "(*image.YCbCr).Bounds",
		"(*image.Gray).Bounds", "(*image.Gray16).Bounds", "(*image.CMYK).Bounds", "(*image.Paletted).Bounds",
	} {
		m[f] = true
	}
	return m
}

func parseTagsOf(s string) []string { return nil }
