package main

// Specification expressions: Go expression syntax (go/parser) extended with
// `==>`, `<==>`, `forall x T, y U :: body`, `exists ...`, and spec functions.

import (
	"fmt"
	"go/ast"
	"go/constant"
	"go/parser"
	"go/token"
	"go/types"
	"math/big"
	"strings"

	"golang.org/x/tools/go/ssa"
)

type SpecExpr struct {
	Kind string // go, forall, exists, imp, iff
	Vars []specParam
	A, B *SpecExpr
	Go   ast.Expr
	Subs map[string]*SpecExpr
	Src  string
	Pats []*SpecExpr // explicit triggers of a quantifier
	Native func(env *SpecEnv) Term // generator-made clause (automatic loop invariants)
}

func topLevelIndex(s, tok string) int {
	depth := 0
	inStr := false
	for i := 0; i < len(s); i++ {
		c := s[i]
		if inStr {
			if c == '\\' {
				i++
			} else if c == '"' {
				inStr = false
			}
			continue
		}
		switch c {
		case '"':
			inStr = true
		case '(', '[', '{':
			depth++
		case ')', ']', '}':
			depth--
		default:
			if depth == 0 && strings.HasPrefix(s[i:], tok) {
				return i
			}
		}
	}
	return -1
}

func parseSpec(s string) (*SpecExpr, error) {
	s = strings.TrimSpace(s)
	if s == "" {
		return nil, fmt.Errorf("empty spec expression")
	}
	for _, q := range []string{"forall", "exists"} {
		if strings.HasPrefix(s, q+" ") {
			i := topLevelIndex(s, "::")
			if i < 0 {
				return nil, fmt.Errorf("%s without '::'", q)
			}
			var vars []specParam
			binders := s[len(q):i]
			var pats []*SpecExpr
			if b := strings.Index(binders, "{"); b >= 0 {
				e := strings.LastIndex(binders, "}")
				if e < b {
					return nil, fmt.Errorf("unbalanced trigger braces")
				}
				for _, ps := range splitTopLevel(binders[b+1:e], ',') {
					pe, err := parseSpec(ps)
					if err != nil {
						return nil, err
					}
					pats = append(pats, pe)
				}
				binders = binders[:b]
			}
			for _, v := range strings.Split(binders, ",") {
				fs := strings.Fields(v)
				if len(fs) != 2 {
					return nil, fmt.Errorf("bad binder %q", v)
				}
				vars = append(vars, specParam{fs[0], fs[1]})
			}
			body, err := parseSpec(s[i+2:])
			if err != nil {
				return nil, err
			}
			return &SpecExpr{Kind: q, Vars: vars, A: body, Src: s, Pats: pats}, nil
		}
	}
	if i := topLevelIndex(s, "<==>"); i >= 0 {
		a, err := parseSpec(s[:i])
		if err != nil {
			return nil, err
		}
		b, err := parseSpec(s[i+4:])
		if err != nil {
			return nil, err
		}
		return &SpecExpr{Kind: "iff", A: a, B: b, Src: s}, nil
	}
	if i := topLevelIndex(s, "==>"); i >= 0 {
		a, err := parseSpec(s[:i])
		if err != nil {
			return nil, err
		}
		b, err := parseSpec(s[i+3:])
		if err != nil {
			return nil, err
		}
		return &SpecExpr{Kind: "imp", A: a, B: b, Src: s}, nil
	}
	// replace parenthesised groups containing spec-only syntax by placeholders
	subs := map[string]*SpecExpr{}
	var sb strings.Builder
	depth := 0
	start := -1
	inStr := false
	for i := 0; i < len(s); i++ {
		c := s[i]
		if inStr {
			if depth == 0 {
				sb.WriteByte(c)
			}
			if c == '\\' && i+1 < len(s) {
				i++
				if depth == 0 {
					sb.WriteByte(s[i])
				}
			} else if c == '"' {
				inStr = false
			}
			continue
		}
		if c == '"' {
			inStr = true
			if depth == 0 {
				sb.WriteByte(c)
			}
			continue
		}
		if c == '(' {
			if depth == 0 {
				start = i
			}
			depth++
			continue
		}
		if c == ')' {
			depth--
			if depth == 0 {
				inner := s[start+1 : i]
				if strings.Contains(inner, "==>") || strings.Contains(inner, "forall ") || strings.Contains(inner, "exists ") {
					// is this a call's argument list? (preceded by identifier char)
					isCall := start > 0 && (isIdentChar(s[start-1]) || s[start-1] == ']' || s[start-1] == ')')
					if isCall {
						// parse each top-level comma separated argument
						var parts []string
						rest := inner
						for {
							j := topLevelIndex(rest, ",")
							if j < 0 {
								parts = append(parts, rest)
								break
							}
							parts = append(parts, rest[:j])
							rest = rest[j+1:]
						}
						sb.WriteByte('(')
						for k, p := range parts {
							if k > 0 {
								sb.WriteByte(',')
							}
							if strings.Contains(p, "==>") || strings.Contains(p, "forall ") || strings.Contains(p, "exists ") {
								sub, err := parseSpec(p)
								if err != nil {
									return nil, err
								}
								name := fmt.Sprintf("SPEC__%d", len(subs))
								subs[name] = sub
								sb.WriteString(name)
							} else {
								sb.WriteString(p)
							}
						}
						sb.WriteByte(')')
					} else {
						sub, err := parseSpec(inner)
						if err != nil {
							return nil, err
						}
						name := fmt.Sprintf("SPEC__%d", len(subs))
						subs[name] = sub
						sb.WriteString("(" + name + ")")
					}
				} else {
					sb.WriteString(s[start : i+1])
				}
			}
			continue
		}
		if depth == 0 {
			sb.WriteByte(c)
		}
	}
	if depth != 0 {
		return nil, fmt.Errorf("unbalanced parentheses in %q", s)
	}
	e, err := parser.ParseExpr(sb.String())
	if err != nil {
		return nil, fmt.Errorf("%v in %q", err, sb.String())
	}
	return &SpecExpr{Kind: "go", Go: e, Subs: subs, Src: s}, nil
}

func splitTopLevel(s string, sep byte) []string {
	var parts []string
	depth := 0
	start := 0
	for i := 0; i < len(s); i++ {
		switch s[i] {
		case '(', '[', '{':
			depth++
		case ')', ']', '}':
			depth--
		default:
			if s[i] == sep && depth == 0 {
				parts = append(parts, s[start:i])
				start = i + 1
			}
		}
	}
	return append(parts, s[start:])
}

func isIdentChar(c byte) bool {
	return c == '_' || c >= '0' && c <= '9' || c >= 'a' && c <= 'z' || c >= 'A' && c <= 'Z'
}

// SV is a spec-level value.
type SV struct {
	V  Val
	T  types.Type     // Go type, nil for pure math / untyped
	C  constant.Value // untyped constant
	Ty types.Type     // expression denotes a type
	Fn *ssa.Function  // expression denotes a repo function (also in V as FuncVal)
	St *Stream        // convenience
}

type SpecEnv struct {
	noRename bool
	vc    *VC
	fr    *Frame
	st    *State
	old   *State
	bound map[string]SV
	pkg   *ssa.Package
	binders int
}

type specError struct{ msg string }

func (e specError) Error() string { return e.msg }

func sfail(f string, a ...interface{}) { panic(specError{fmt.Sprintf(f, a...)}) }

// evalSpecTerm evaluates a boolean/scalar spec expression in the context of a frame.
func (vc *VC) evalSpecTerm(fr *Frame, st *State, se *SpecExpr, bound map[string]SV) Term {
	env := &SpecEnv{vc: vc, fr: fr, st: st, bound: bound}
	if fr != nil {
		env.old = fr.entrySt
		if fr.fn != nil {
			env.pkg = fr.fn.Pkg
			if env.pkg == nil && fr.fn.Parent() != nil {
				env.pkg = fr.fn.Parent().Pkg
			}
		}
	}
	return env.term(se)
}

func (env *SpecEnv) term(se *SpecExpr) Term {
	sv := env.eval(se)
	t, ok := sv.V.(Term)
	if !ok {
		if sv.C != nil {
			if sv.C.Kind() == constant.Bool {
				return TBool(constant.BoolVal(sv.C))
			}
		}
		sfail("spec expression %q is not a scalar (%T)", se.Src, sv.V)
	}
	return t
}

func (env *SpecEnv) eval(se *SpecExpr) SV {
	switch se.Kind {
	case "native":
		return SV{V: se.Native(env), T: types.Typ[types.Bool]}
	case "imp":
		a, b := env.term(se.A), env.term(se.B)
		return SV{V: Implies(a, b), T: types.Typ[types.Bool]}
	case "iff":
		a, b := env.term(se.A), env.term(se.B)
		return SV{V: Eq(a, b), T: types.Typ[types.Bool]}
	case "forall", "exists":
		if r, ok := env.expandBounded(se); ok {
			return r
		}
		saved := map[string]*SV{}
		var binders []string
		var ranges []Term
		for _, v := range se.Vars {
			if old, ok := env.bound[v.Name]; ok {
				o := old
				saved[v.Name] = &o
			} else {
				saved[v.Name] = nil
			}
			var s Sort
			var T types.Type
			switch v.Type {
			case "mathint":
				s = SInt
			case "mathreal":
				s = SReal
			default:
				T = env.vc.eng.lookupType(env.pkg, v.Type)
				if T == nil {
					sfail("unknown type %s in binder", v.Type)
				}
				var ok bool
				s, ok = env.vc.sortOf(T)
				if !ok {
					sfail("binder type %s is not scalar", v.Type)
				}
			}
			env.vc.nfresh++
			name := fmt.Sprintf("%s!q%d", v.Name, env.vc.nfresh)
			bt := Term{S: s, E: name}
			if T != nil {
				bt.Signed = isSigned(T)
				ranges = append(ranges, env.vc.typeRange(bt, T))
			}
			if env.bound == nil {
				env.bound = map[string]SV{}
			}
			env.bound[v.Name] = SV{V: bt, T: T}
			binders = append(binders, fmt.Sprintf("(%s %s)", name, s.String()))
		}
		env.binders++
		env.vc.noDefine++
		body := env.term(se.A)
		var patTerms []string
		for _, pe := range se.Pats {
			patTerms = append(patTerms, env.asTerm(env.eval(pe), "trigger").E)
		}
		env.vc.noDefine--
		env.binders--
		for k, o := range saved {
			if o == nil {
				delete(env.bound, k)
			} else {
				env.bound[k] = *o
			}
		}
		rng := And(ranges...)
		var e string
		if se.Kind == "forall" {
			inner := Implies(rng, body).E
			if len(patTerms) > 0 {
				inner = fmt.Sprintf("(! %s :pattern (%s))", inner, strings.Join(patTerms, " "))
			}
			e = fmt.Sprintf("(forall (%s) %s)", strings.Join(binders, " "), inner)
		} else {
			e = fmt.Sprintf("(exists (%s) %s)", strings.Join(binders, " "), And(rng, body).E)
		}
		if body.IsTrue() && se.Kind == "forall" {
			return SV{V: TTrue(), T: types.Typ[types.Bool]}
		}
		return SV{V: Term{S: SBool, E: e}, T: types.Typ[types.Bool]}
	case "go":
		return env.expr(se.Go, se.Subs)
	}
	sfail("bad spec kind %s", se.Kind)
	return SV{}
}

func (env *SpecEnv) asTerm(sv SV, what string) Term {
	if t, ok := sv.V.(Term); ok {
		return t
	}
	if sv.C != nil {
		switch sv.C.Kind() {
		case constant.Bool:
			return TBool(constant.BoolVal(sv.C))
		case constant.Int:
			iv, _ := new(big.Int).SetString(sv.C.ExactString(), 10)
			if env.vc.mode.IntMath {
				return IntConst(iv)
			}
			return IntConst(iv)
		case constant.Float:
			return RealConst(constRat(sv.C))
		case constant.String:
			return env.vc.strLit(constant.StringVal(sv.C))
		}
	}
	sfail("%s: not a scalar (%T)", what, sv.V)
	return Term{}
}

// coerce an untyped constant to the type/sort of another operand.
func (env *SpecEnv) coerce(c SV, like SV) SV {
	if c.C == nil {
		return c
	}
	if like.T != nil {
		if _, ok := like.T.Underlying().(*types.Basic); ok {
			return SV{V: env.vc.constOf(c.C, like.T), T: like.T}
		}
		if isErrorType(like.T) {
			return c
		}
	}
	if lt, ok := like.V.(Term); ok {
		switch lt.S.K {
		case KInt:
			iv, ok := new(big.Int).SetString(constant.ToInt(c.C).ExactString(), 10)
			if !ok {
				sfail("non-integer constant %v used with Int", c.C)
			}
			return SV{V: IntConst(iv)}
		case KReal:
			return SV{V: RealConst(constRat(c.C))}
		case KBV:
			iv, _ := new(big.Int).SetString(constant.ToInt(c.C).ExactString(), 10)
			return SV{V: BVConst(iv, lt.S.N, lt.Signed)}
		case KBool:
			return SV{V: TBool(constant.BoolVal(c.C)), T: types.Typ[types.Bool]}
		}
	}
	return c
}

func (env *SpecEnv) expr(e ast.Expr, subs map[string]*SpecExpr) SV {
	switch x := e.(type) {
	case *ast.ParenExpr:
		return env.expr(x.X, subs)
	case *ast.BasicLit:
		cv := constant.MakeFromLiteral(x.Value, x.Kind, 0)
		return SV{C: cv}
	case *ast.Ident:
		if s, ok := subs[x.Name]; ok {
			return env.eval(s)
		}
		return env.ident(x.Name)
	case *ast.UnaryExpr:
		a := env.expr(x.X, subs)
		switch x.Op {
		case token.NOT:
			return SV{V: Not(env.asTerm(a, "!")), T: types.Typ[types.Bool]}
		case token.SUB:
			if a.C != nil {
				return SV{C: constant.UnaryOp(token.SUB, a.C, 0)}
			}
			t := env.asTerm(a, "-")
			switch t.S.K {
			case KBV:
				return SV{V: BVNeg(t), T: a.T}
			case KFP:
				return SV{V: FPNeg(t), T: a.T}
			default:
				return SV{V: NumNeg(t), T: a.T}
			}
		case token.AND:
			sfail("address-of not supported in specs")
		}
		sfail("unsupported unary operator %s", x.Op)
	case *ast.BinaryExpr:
		return env.binary(x, subs)
	case *ast.CallExpr:
		return env.call(x, subs)
	case *ast.SelectorExpr:
		return env.selector(x, subs)
	case *ast.IndexExpr:
		a := env.expr(x.X, subs)
		i := env.expr(x.Index, subs)
		return env.index(a, i)
	case *ast.CompositeLit:
		return env.complit(x, nil, subs)
	case *ast.StarExpr:
		a := env.expr(x.X, subs)
		if p, ok := a.V.(PtrVal); ok {
			return SV{V: env.vc.load(env.st, p), T: a.T.Underlying().(*types.Pointer).Elem()}
		}
		sfail("deref of non-pointer")
	case *ast.SliceExpr:
		sfail("slice expressions are not supported in specs; use bytes(s, lo, hi) style spec functions")
	}
	sfail("unsupported spec expression %T", e)
	return SV{}
}

func (env *SpecEnv) idxTerm(i SV) Term {
	if i.C != nil {
		iv, _ := new(big.Int).SetString(constant.ToInt(i.C).ExactString(), 10)
		return env.vc.idxBig(iv)
	}
	t := env.asTerm(i, "index")
	if t.S.K == KInt {
		if !env.vc.mode.IntMath {
			sfail("mathematical Int used as index in BV mode")
		}
		return t
	}
	if i.T != nil {
		return env.vc.toIndex(t, i.T)
	}
	return BVResize(t, 64, t.Signed, true)
}

func (env *SpecEnv) index(a, i SV) SV {
	it := env.idxTerm(i)
	switch av := a.V.(type) {
	case ArrVal:
		var et types.Type
		if a.T != nil {
			et = a.T.Underlying().(*types.Array).Elem()
		}
		return SV{V: env.vc.arrGet(av, it), T: et}
	case Term:
		if av.S.K == KArr {
			var et types.Type
			if a.T != nil {
				if at, ok := a.T.Underlying().(*types.Array); ok {
					et = at.Elem()
				}
			}
			r := Select(av, it)
			if et != nil {
				r.Signed = isSigned(et)
			}
			return SV{V: r, T: et}
		}
	case SliceVal:
		var et types.Type
		if a.T != nil {
			et = a.T.Underlying().(*types.Slice).Elem()
		}
		if av.Base.Cell == nil {
			// nil slice: the element is unspecified (specs guard such reads with != nil)
			if et != nil {
				if es, ok := env.vc.sortOf(et); ok {
					arr := env.vc.ufApp("nil_slice_"+sanitize(es.String()), ArrSort(env.vc.intSort(64), es))
					return SV{V: Select(arr, it), T: et}
				}
			}
			if _, ok := et.Underlying().(*types.Slice); ok && et != nil {
				// element of a nil slice of slices: unspecified (guarded by the spec); a nil slice stands in
				return SV{V: SliceVal{Off: env.vc.idx(0), Len: env.vc.idx(0), Cap: env.vc.idx(0), IsNil: TTrue()}, T: et}
			}
			sfail("index of nil slice in spec")
		}
		if base, ok := env.vc.load(env.st, av.Base).(ArrVal); ok && len(base.E) == 0 && et != nil {
			if es, ok := env.vc.sortOf(et); ok {
				arr := env.vc.ufApp("nil_slice_"+sanitize(es.String()), ArrSort(env.vc.intSort(64), es))
				return SV{V: Select(arr, it), T: et}
			}
		}
		ii := env.vc.iAdd(av.Off, it)
		v := env.vc.load(env.st, av.Base.Extend(PathElem{Field: -1, Idx: &ii}))
		if t, ok := v.(Term); ok && et != nil {
			t.Signed = isSigned(et)
			v = t
		}
		return SV{V: v, T: et}
	}
	sfail("cannot index %T", a.V)
	return SV{}
}

func (env *SpecEnv) binary(x *ast.BinaryExpr, subs map[string]*SpecExpr) SV {
	a := env.expr(x.X, subs)
	// short-circuit constants for && and || keep evaluation total
	b := env.expr(x.Y, subs)
	boolT := types.Typ[types.Bool]
	switch x.Op {
	case token.LAND:
		return SV{V: And(env.asTerm(a, "&&"), env.asTerm(b, "&&")), T: boolT}
	case token.LOR:
		return SV{V: Or(env.asTerm(a, "||"), env.asTerm(b, "||")), T: boolT}
	}
	if a.C != nil && b.C != nil {
		switch x.Op {
		case token.EQL, token.NEQ, token.LSS, token.LEQ, token.GTR, token.GEQ:
			return SV{C: constant.MakeBool(constant.Compare(a.C, x.Op, b.C))}
		case token.SHL, token.SHR:
			n, _ := constant.Uint64Val(b.C)
			return SV{C: constant.Shift(a.C, x.Op, uint(n))}
		case token.QUO:
			// untyped constant division: exact rational unless both are integers
			if a.C.Kind() == constant.Int && b.C.Kind() == constant.Int {
				return SV{C: constant.BinaryOp(a.C, token.QUO_ASSIGN, b.C)}
			}
		}
		return SV{C: constant.BinaryOp(a.C, x.Op, b.C)}
	}
	if a.C != nil {
		a = env.coerce(a, b)
	}
	if b.C != nil {
		if x.Op == token.SHL || x.Op == token.SHR {
			// shift count
			n, _ := constant.Uint64Val(b.C)
			if at, ok := a.V.(Term); ok && at.S.K == KBV {
				b = SV{V: BVConstI(int64(n), at.S.N, false), T: types.Typ[types.Uint]}
			} else {
				b = SV{V: IntConst(big.NewInt(int64(n))), T: types.Typ[types.Uint]}
			}
		} else {
			b = env.coerce(b, a)
		}
	}
	// nil comparisons
	if x.Op == token.EQL || x.Op == token.NEQ {
		r := env.equal(a, b)
		if x.Op == token.NEQ {
			r = Not(r)
		}
		return SV{V: r, T: boolT}
	}
	at, aok := a.V.(Term)
	bt, bok := b.V.(Term)
	if !aok || !bok {
		sfail("binary %s on non-scalars (%T, %T) in %s", x.Op, a.V, b.V, exprString(x))
	}
	// Go-typed arithmetic
	if a.T != nil && b.T != nil {
		if _, ok := a.T.Underlying().(*types.Basic); ok {
			r, _ := env.vc.binop(x.Op, at, bt, a.T, b.T)
			rt := a.T
			switch x.Op {
			case token.LSS, token.LEQ, token.GTR, token.GEQ:
				rt = boolT
			}
			return SV{V: r, T: rt}
		}
	}
	// mathematical sorts
	if at.S.K != bt.S.K {
		// promote Int to Real
		if at.S.K == KInt && bt.S.K == KReal {
			at = Int2Real(at)
		} else if at.S.K == KReal && bt.S.K == KInt {
			bt = Int2Real(bt)
		} else {
			sfail("sort mismatch in %s: %s vs %s", exprString(x), at.S, bt.S)
		}
	}
	switch at.S.K {
	case KInt, KReal:
		switch x.Op {
		case token.ADD:
			return SV{V: NumAdd(at, bt)}
		case token.SUB:
			return SV{V: NumSub(at, bt)}
		case token.MUL:
			return SV{V: NumMul(at, bt)}
		case token.QUO:
			if at.S.K == KReal {
				return SV{V: RealDiv(at, bt)}
			}
			return SV{V: floorDiv(at, bt)}
		case token.REM:
			return SV{V: Term{S: SInt, E: app("mod", at, bt)}}
		case token.LSS:
			return SV{V: NumCmp("<", at, bt), T: boolT}
		case token.LEQ:
			return SV{V: NumCmp("<=", at, bt), T: boolT}
		case token.GTR:
			return SV{V: NumCmp(">", at, bt), T: boolT}
		case token.GEQ:
			return SV{V: NumCmp(">=", at, bt), T: boolT}
		}
	case KBV:
		r, _ := env.vc.binop(x.Op, at, bt, bvType(at), bvType(bt))
		return SV{V: r}
	case KFP:
		ft := types.Typ[types.Float64]
		if at.S.N == 32 {
			ft = types.Typ[types.Float32]
		}
		r, _ := env.vc.binop(x.Op, at, bt, ft, ft)
		return SV{V: r, T: ft}
	}
	sfail("unsupported binary %s on sort %s", x.Op, at.S)
	return SV{}
}

func bvType(t Term) types.Type {
	switch t.S.N {
	case 8:
		if t.Signed {
			return types.Typ[types.Int8]
		}
		return types.Typ[types.Uint8]
	case 16:
		if t.Signed {
			return types.Typ[types.Int16]
		}
		return types.Typ[types.Uint16]
	case 32:
		if t.Signed {
			return types.Typ[types.Int32]
		}
		return types.Typ[types.Uint32]
	}
	if t.Signed {
		return types.Typ[types.Int64]
	}
	return types.Typ[types.Uint64]
}

func exprString(e ast.Expr) string {
	return types.ExprString(e)
}

func (env *SpecEnv) equal(a, b SV) Term {
	isNilConst := func(s SV) bool { return s.V == nil && s.C == nil && s.Ty == nil && s.Fn == nil }
	if isNilConst(b) {
		return env.isNil(a)
	}
	if isNilConst(a) {
		return env.isNil(b)
	}
	if a.C != nil && b.C != nil {
		return TBool(constant.Compare(a.C, token.EQL, b.C))
	}
	at, aok := a.V.(Term)
	bt, bok := b.V.(Term)
	if aok && bok && !at.S.Eq(bt.S) {
		if at.S.K == KInt && bt.S.K == KReal {
			at = Int2Real(at)
		} else if at.S.K == KReal && bt.S.K == KInt {
			bt = Int2Real(bt)
		} else {
			sfail("== sort mismatch: %s:%s vs %s:%s", at.E, at.S, bt.E, bt.S)
		}
		return Eq(at, bt)
	}
	if aok && bok && at.S.K == KArr {
		return Eq(at, bt)
	}
	return env.vc.eqVal(a.V, b.V)
}

func (env *SpecEnv) isNil(a SV) Term {
	switch v := a.V.(type) {
	case Term:
		if v.S.Eq(SErr) {
			if v.NonNil {
				return TFalse()
			}
			return Eq(v, Term{S: SErr, E: "err_nil"})
		}
	case PtrVal:
		return TBool(v.Cell == nil)
	case SliceVal:
		return v.IsNil
	case IfaceVal:
		return TBool(v.Dyn == nil)
	case MapVal:
		return TBool(v.Cell == nil)
	case FuncVal:
		return TBool(v.Nil)
	}
	sfail("nil comparison on %T", a.V)
	return Term{}
}

func (env *SpecEnv) ident(name string) SV {
	if sv, ok := env.bound[name]; ok {
		return sv
	}
	switch name {
	case "true":
		return SV{C: constant.MakeBool(true)}
	case "false":
		return SV{C: constant.MakeBool(false)}
	case "nil":
		return SV{}
	}
	fr := env.fr
	vc := env.vc
	if fr != nil && fr.fn != nil {
		if v, ok := fr.ghost[name]; ok {
			return SV{V: v}
		}
		if alt, ok := vc.eng.forToRange(fr.fn)[name]; ok {
			return env.renamedIdent(alt)
		}
		for _, p := range fr.fn.Params {
			if p.Name() == name {
				if v, ok := fr.env[p]; ok {
					return SV{V: v, T: p.Type()}
				}
			}
		}
		for _, fv := range fr.fn.FreeVars {
			if fv.Name() == name {
				if v, ok := fr.env[fv]; ok {
					if p, ok := v.(PtrVal); ok {
						T := fv.Type().(*types.Pointer).Elem()
						return SV{V: vc.load(env.st, p), T: T}
					}
					return SV{V: v, T: fv.Type()}
				}
			}
		}
		// locals (allocs) and phis by source name
		var phiHit *ssa.Phi
		var allocHit *ssa.Alloc
		for _, b := range fr.fn.Blocks {
			for _, ins := range b.Instrs {
				switch y := ins.(type) {
				case *ssa.Phi:
					if y.Comment == name {
						if _, ok := fr.env[y]; ok {
							phiHit = y
						}
					}
				case *ssa.Alloc:
					if y.Comment == name && allocHit == nil {
						if _, ok := fr.env[y]; ok {
							allocHit = y
						}
					}
				}
			}
		}
		if phiHit != nil {
			return SV{V: fr.env[phiHit], T: phiHit.Type()}
		}
		if allocHit != nil {
			p := fr.env[allocHit].(PtrVal)
			return SV{V: vc.load(env.st, p), T: allocHit.Type().(*types.Pointer).Elem()}
		}
		// source-level local kept in a register: resolved through go/ssa debug references
		var dbg ssa.Value
		for _, b := range fr.fn.Blocks {
			for _, ins := range b.Instrs {
				if d, ok := ins.(*ssa.DebugRef); ok && !d.IsAddr {
					if idn, ok := d.Expr.(*ast.Ident); ok && idn.Name == name {
						if _, have := fr.env[d.X]; have {
							dbg = d.X
						}
					}
				}
			}
		}
		if dbg != nil {
			return SV{V: fr.env[dbg], T: dbg.Type()}
		}
		// SSA register name
		for _, b := range fr.fn.Blocks {
			for _, ins := range b.Instrs {
				if v, ok := ins.(ssa.Value); ok && v.Name() == name {
					if val, ok := fr.env[v]; ok {
						return SV{V: val, T: v.Type()}
					}
				}
			}
		}
	}
	// package scope
	if env.pkg != nil {
		if sv, ok := env.pkgObject(env.pkg.Pkg, name); ok {
			return sv
		}
	}
	if o := types.Universe.Lookup(name); o != nil {
		if tn, ok := o.(*types.TypeName); ok {
			return SV{Ty: tn.Type()}
		}
	}
	// a package name?
	if p := vc.eng.findPkgByName(env.pkg, name); p != nil {
		return SV{V: pkgRef{p}}
	}
	if fr != nil && fr.fn != nil && !env.noRename {
		if alt := vc.eng.renamedLocal(fr.fn, name); alt != "" {
			env.noRename = true
			defer func() { env.noRename = false }()
			note := "identifier " + name + " in a clause of " + fr.fn.Name() + " resolved to the renamed local " + alt
			seen := false
			for _, n := range vc.notes {
				if n == note {
					seen = true
				}
			}
			if !seen {
				vc.notes = append(vc.notes, note)
			}
			return env.renamedIdent(alt)
		}
	}
	sfail("unknown identifier %q in spec", name)
	return SV{}
}

// renamedIdent resolves what names.go's renamedLocal returned: a plain name, "<name>-1", or
// "rangeindex@<k>+1" (the hidden index of range loop k, plus one).
func (env *SpecEnv) renamedIdent(alt string) SV {
	vc, fr := env.vc, env.fr
	if strings.HasPrefix(alt, "rangeindex@") {
		k := 0
		fmt.Sscanf(alt, "rangeindex@%d+1", &k)
		vc.eng.loopInfo(fr.fn, nil)
		for _, li := range vc.eng.loops[fr.fn] {
			if li.Ordinal != k {
				continue
			}
			for _, ins := range li.Header.Instrs {
				phi, ok := ins.(*ssa.Phi)
				if !ok {
					break
				}
				if phi.Comment == "rangeindex" {
					if v, ok := fr.env[phi].(Term); ok {
						return SV{V: vc.iAdd(v, vc.likeIdx(v, 1)), T: phi.Type()}
					}
				}
			}
		}
		sfail("unknown identifier in spec (range index of loop %d not available)", k)
	}
	if strings.HasSuffix(alt, "-1") {
		sv := env.ident(strings.TrimSuffix(alt, "-1"))
		if v, ok := sv.V.(Term); ok {
			return SV{V: vc.iSub(v, vc.likeIdx(v, 1)), T: sv.T}
		}
		sfail("unknown identifier %q in spec", alt)
	}
	return env.ident(alt)
}

type pkgRef struct{ p *types.Package }

func (env *SpecEnv) pkgObject(p *types.Package, name string) (SV, bool) {
	o := p.Scope().Lookup(name)
	if o == nil {
		if alt := env.vc.eng.renamedPkgObject(p, name); alt != "" {
			o = p.Scope().Lookup(alt)
			name = alt
		}
	}
	if o == nil {
		return SV{}, false
	}
	vc := env.vc
	switch ob := o.(type) {
	case *types.Const:
		if b, ok := ob.Type().Underlying().(*types.Basic); ok && b.Info()&types.IsUntyped != 0 {
			return SV{C: ob.Val()}, true
		}
		return SV{V: vc.constOf(ob.Val(), ob.Type()), T: ob.Type()}, true
	case *types.Var:
		sp := vc.eng.prog.Package(p)
		if sp == nil {
			sfail("no SSA package for %s", p.Path())
		}
		g, ok := sp.Members[name].(*ssa.Global)
		if !ok {
			sfail("no global %s", name)
		}
		c := vc.globalCell(env.st, g)
		return SV{V: env.st.mem[c], T: ob.Type()}, true
	case *types.Func:
		sp := vc.eng.prog.Package(p)
		fn := sp.Func(name)
		return SV{V: FuncVal{Fn: fn}, Fn: fn, T: ob.Type()}, true
	case *types.TypeName:
		return SV{Ty: ob.Type()}, true
	}
	return SV{}, false
}

func (env *SpecEnv) selector(x *ast.SelectorExpr, subs map[string]*SpecExpr) SV {
	a := env.expr(x.X, subs)
	name := x.Sel.Name
	if pr, ok := a.V.(pkgRef); ok {
		sv, ok := env.pkgObject(pr.p, name)
		if !ok {
			sfail("unknown %s.%s", pr.p.Name(), name)
		}
		return sv
	}
	return env.field(a, name)
}

func (env *SpecEnv) streamOf(a SV) (*Stream, PtrVal, bool) {
	v := a.V
	if iv, ok := v.(IfaceVal); ok {
		v = iv.V
	}
	if p, ok := v.(PtrVal); ok && p.Cell != nil {
		if s, ok := env.st.mem[p.Cell].(Stream); ok && len(p.Path) == 0 {
			return &s, p, true
		}
	}
	return nil, PtrVal{}, false
}

func (env *SpecEnv) field(a SV, name string) SV {
	vc := env.vc
	if s, _, ok := env.streamOf(a); ok {
		intT := types.Typ[types.Int]
		switch name {
		case "pos":
			return SV{V: s.Pos, T: intT}
		case "len":
			return SV{V: s.Len, T: intT}
		case "avail":
			return SV{V: vc.iSub(s.Len, s.Pos), T: intT}
		}
	}
	if a.T == nil {
		sfail("selector .%s on untyped value", name)
	}
	// pseudo-fields of special objects
	T := a.T
	v := a.V
	if pt, ok := T.Underlying().(*types.Pointer); ok {
		p, ok := v.(PtrVal)
		if !ok {
			sfail("selector .%s through unknown pointer", name)
		}
		if p.Cell == nil {
			// nil pointer: the value is unspecified; specs guard such reads with `p != nil`,
			// which is concretely false here
			v = vc.zero(pt.Elem())
		} else {
			v = vc.load(env.st, p)
		}
		T = pt.Elem()
	}
	if oo, ok := v.(OnceObj); ok && name == "done" {
		return SV{V: oo.Done, T: types.Typ[types.Bool]}
	}
	if bo, ok := v.(BuilderObj); ok && name == "len" {
		return SV{V: bo.Len, T: types.Typ[types.Int]}
	}
	if isNamed(T, "strings", "Builder") && name == "len" {
		return SV{V: vc.idx(0), T: types.Typ[types.Int]} // zero-value builder
	}
	obj, index, _ := types.LookupFieldOrMethod(T, true, env.typesPkg(), name)
	if obj == nil {
		// unexported field of another package: look up with that package
		if n, ok := T.(*types.Named); ok && n.Obj().Pkg() != nil {
			obj, index, _ = types.LookupFieldOrMethod(T, true, n.Obj().Pkg(), name)
		}
	}
	fld, ok := obj.(*types.Var)
	if !ok {
		sfail("no field %s in %v", name, T)
	}
	cur := v
	curT := T
	for _, ix := range index {
		if pt, ok := curT.Underlying().(*types.Pointer); ok {
			cur = vc.load(env.st, cur.(PtrVal))
			curT = pt.Elem()
		}
		sv, ok := cur.(StructVal)
		if !ok {
			sfail("field %s of non-struct %T", name, cur)
		}
		cur = sv.F[ix]
		curT = curT.Underlying().(*types.Struct).Field(ix).Type()
	}
	if t, ok := cur.(Term); ok {
		t.Signed = isSigned(fld.Type())
		cur = t
	}
	return SV{V: cur, T: fld.Type()}
}

func (env *SpecEnv) typesPkg() *types.Package {
	if env.pkg != nil {
		return env.pkg.Pkg
	}
	return nil
}

func (env *SpecEnv) typeOfExpr(e ast.Expr) types.Type {
	switch x := e.(type) {
	case *ast.Ident:
		if T := env.vc.eng.lookupType(env.pkg, x.Name); T != nil {
			return T
		}
	case *ast.SelectorExpr:
		if id, ok := x.X.(*ast.Ident); ok {
			if T := env.vc.eng.lookupType(env.pkg, id.Name+"."+x.Sel.Name); T != nil {
				return T
			}
		}
	case *ast.ArrayType:
		et := env.typeOfExpr(x.Elt)
		if et == nil {
			return nil
		}
		if x.Len == nil {
			return types.NewSlice(et)
		}
		if bl, ok := x.Len.(*ast.BasicLit); ok {
			n, _ := constant.Int64Val(constant.MakeFromLiteral(bl.Value, bl.Kind, 0))
			return types.NewArray(et, n)
		}
	case *ast.StarExpr:
		et := env.typeOfExpr(x.X)
		if et != nil {
			return types.NewPointer(et)
		}
	case *ast.ParenExpr:
		return env.typeOfExpr(x.X)
	}
	return nil
}

func (env *SpecEnv) complit(x *ast.CompositeLit, hint types.Type, subs map[string]*SpecExpr) SV {
	T := hint
	if x.Type != nil {
		T = env.typeOfExpr(x.Type)
	}
	if T == nil {
		sfail("cannot resolve composite literal type %s", exprString(x))
	}
	vc := env.vc
	conv := func(e ast.Expr, ft types.Type) Val {
		if cl, ok := e.(*ast.CompositeLit); ok && cl.Type == nil {
			return env.complit(cl, ft, subs).V
		}
		sv := env.expr(e, subs)
		if sv.C != nil {
			return vc.constOf(sv.C, ft)
		}
		return sv.V
	}
	switch t := T.Underlying().(type) {
	case *types.Struct:
		z := vc.zero(T).(StructVal)
		nf := make([]Val, len(z.F))
		copy(nf, z.F)
		for i, el := range x.Elts {
			if kv, ok := el.(*ast.KeyValueExpr); ok {
				kn := kv.Key.(*ast.Ident).Name
				found := false
				for j := 0; j < t.NumFields(); j++ {
					if t.Field(j).Name() == kn {
						nf[j] = conv(kv.Value, t.Field(j).Type())
						found = true
					}
				}
				if !found {
					sfail("no field %s in %v", kn, T)
				}
			} else {
				nf[i] = conv(el, t.Field(i).Type())
			}
		}
		return SV{V: StructVal{F: nf}, T: T}
	case *types.Array:
		if t.Len() > smallArrayMax {
			sfail("large array literal in spec")
		}
		z := vc.zero(T).(ArrVal)
		ne := make([]Val, len(z.E))
		copy(ne, z.E)
		for i, el := range x.Elts {
			ne[i] = conv(el, t.Elem())
		}
		return SV{V: ArrVal{E: ne}, T: T}
	}
	sfail("unsupported composite literal type %v", T)
	return SV{}
}

func (env *SpecEnv) args(x *ast.CallExpr, subs map[string]*SpecExpr) []SV {
	var r []SV
	for _, a := range x.Args {
		r = append(r, env.expr(a, subs))
	}
	return r
}

func (env *SpecEnv) toReal(a SV) Term {
	if a.C != nil {
		return RealConst(constRat(a.C))
	}
	t := env.asTerm(a, "real()")
	switch t.S.K {
	case KReal:
		return t
	case KInt:
		return Int2Real(t)
	case KBV:
		signed := t.Signed
		if a.T != nil {
			signed = isSigned(a.T)
		}
		return Int2Real(BV2Int(t, signed))
	case KFP:
		return FPToReal(t)
	}
	sfail("real() of sort %s", t.S)
	return Term{}
}

func (env *SpecEnv) toMathInt(a SV) Term {
	if a.C != nil {
		iv, _ := new(big.Int).SetString(constant.ToInt(a.C).ExactString(), 10)
		return IntConst(iv)
	}
	t := env.asTerm(a, "mathint()")
	switch t.S.K {
	case KInt:
		return t
	case KBV:
		signed := t.Signed
		if a.T != nil {
			signed = isSigned(a.T)
		}
		return BV2Int(t, signed)
	}
	sfail("mathint() of sort %s", t.S)
	return Term{}
}

func (env *SpecEnv) call(x *ast.CallExpr, subs map[string]*SpecExpr) SV {
	vc := env.vc
	boolT := types.Typ[types.Bool]
	if id, ok := x.Fun.(*ast.Ident); ok {
		switch id.Name {
		case "old":
			if env.old == nil {
				sfail("old() outside a function contract")
			}
			saved := env.st
			env.st = env.old
			r := env.expr(x.Args[0], subs)
			env.st = saved
			return r
		case "ret":
			// ret(k, f(...)): k-th result of a multi-result call
			kv := env.expr(x.Args[0], subs)
			if kv.C == nil {
				sfail("ret: first argument must be a constant index")
			}
			k64, _ := constant.Int64Val(kv.C)
			r := env.expr(x.Args[1], subs)
			tv, ok := r.V.(TupleVal)
			if !ok || int(k64) >= len(tv) {
				sfail("ret: second argument is not a multi-result call")
			}
			var T types.Type
			if ce, ok := x.Args[1].(*ast.CallExpr); ok {
				T = env.resultType(ce, int(k64))
			}
			v := tv[k64]
			if t, ok := v.(Term); ok && T != nil {
				t.Signed = isSigned(T)
				v = t
			}
			return SV{V: v, T: T}
		case "prev":
			// value at the head of the current iteration (state and loop variables)
			if env.fr == nil || env.fr.iterStart == nil || env.fr.iterStart[env.fr.curLoop] == nil {
				sfail("prev() outside a loop step contract")
			}
			saved := env.st
			env.st = env.fr.iterStart[env.fr.curLoop]
			savedEnv := map[ssa.Value]Val{}
			for k, v := range env.fr.iterPhis[env.fr.curLoop] {
				savedEnv[k] = env.fr.env[k]
				env.fr.env[k] = v
			}
			r := env.expr(x.Args[0], subs)
			for k, v := range savedEnv {
				env.fr.env[k] = v
			}
			env.st = saved
			return r
		case "entry":
			// value at entry to the loop whose invariant is being evaluated
			if env.fr == nil || env.fr.loopEntry == nil || env.fr.loopEntry[env.fr.curLoop] == nil {
				sfail("entry() outside a loop invariant")
			}
			saved := env.st
			env.st = env.fr.loopEntry[env.fr.curLoop]
			r := env.expr(x.Args[0], subs)
			env.st = saved
			return r
		case "len":
			a := env.expr(x.Args[0], subs)
			intT := types.Typ[types.Int]
			switch v := a.V.(type) {
			case SliceVal:
				return SV{V: v.Len, T: intT}
			case ArrVal:
				return SV{V: vc.idx(int64(len(v.E))), T: intT}
			case Term:
				if v.S.K == KArr && a.T != nil {
					return SV{V: vc.idx(arrayLen(a.T)), T: intT}
				}
				if v.S.Eq(SStr) {
					l := vc.ufApp("len_of_string", vc.intSort(64), v)
					l.Signed = true
					return SV{V: l, T: intT}
				}
			}
			sfail("len of %T", a.V)
		case "abs":
			a := env.expr(x.Args[0], subs)
			if a.C != nil {
				if constant.Sign(a.C) < 0 {
					return SV{C: constant.UnaryOp(token.SUB, a.C, 0)}
				}
				return a
			}
			t := env.asTerm(a, "abs")
			switch t.S.K {
			case KReal:
				return SV{V: Ite(NumCmp(">=", t, RealConst(new(big.Rat))), t, NumNeg(t))}
			case KInt:
				return SV{V: Ite(NumCmp(">=", t, IntConst(big.NewInt(0))), t, NumNeg(t))}
			case KFP:
				return SV{V: Term{S: t.S, E: app("fp.abs", t)}, T: a.T}
			}
			sfail("abs of sort %s", t.S)
		case "real":
			return SV{V: env.toReal(env.expr(x.Args[0], subs))}
		case "mathint":
			return SV{V: env.toMathInt(env.expr(x.Args[0], subs))}
		case "same":
			// bit-identical equality (SMT =), unlike Go == on floats
			a, b := env.expr(x.Args[0], subs), env.expr(x.Args[1], subs)
			if a.C != nil {
				a = env.coerce(a, b)
			}
			if b.C != nil {
				b = env.coerce(b, a)
			}
			return SV{V: env.sameVal(a.V, b.V), T: boolT}
		case "isnan":
			t := env.asTerm(env.expr(x.Args[0], subs), "isnan")
			if t.S.K != KFP {
				return SV{V: TFalse(), T: boolT}
			}
			return SV{V: Term{S: SBool, E: app("fp.isNaN", t)}, T: boolT}
		case "isinf":
			t := env.asTerm(env.expr(x.Args[0], subs), "isinf")
			if t.S.K != KFP {
				return SV{V: TFalse(), T: boolT}
			}
			return SV{V: Term{S: SBool, E: app("fp.isInfinite", t)}, T: boolT}
		case "ite":
			c := env.asTerm(env.expr(x.Args[0], subs), "ite")
			a, b := env.expr(x.Args[1], subs), env.expr(x.Args[2], subs)
			if a.C != nil {
				a = env.coerce(a, b)
			}
			if b.C != nil {
				b = env.coerce(b, a)
			}
			if a.C != nil && b.C != nil {
				a = SV{V: env.asTerm(a, "ite")}
				b = SV{V: env.asTerm(b, "ite")}
			}
			return SV{V: vc.iteVal(c, a.V, b.V), T: a.T}
		case "u8", "be16", "be32", "be64", "le16", "le32", "le24":
			return env.streamRead(id.Name, env.args(x, subs))
		case "det3":
			// determinant of a 3x3 array-of-arrays value (spec-level definition)
			a := env.expr(x.Args[0], subs)
			m, ok := a.V.(ArrVal)
			if !ok || len(m.E) != 3 {
				sfail("det3 of %T", a.V)
			}
			e := func(i, j int) Term { return m.E[i].(ArrVal).E[j].(Term) }
			mul, sub, add := NumMul, NumSub, NumAdd
			if e(0, 0).S.K == KFP {
				mul = func(a, b Term) Term { return FPBin("fp.mul", a, b) }
				sub = func(a, b Term) Term { return FPBin("fp.sub", a, b) }
				add = func(a, b Term) Term { return FPBin("fp.add", a, b) }
			}
			d := add(sub(mul(e(0, 0), sub(mul(e(1, 1), e(2, 2)), mul(e(2, 1), e(1, 2)))),
				mul(e(1, 0), sub(mul(e(0, 1), e(2, 2)), mul(e(2, 1), e(0, 2))))),
				mul(e(2, 0), sub(mul(e(0, 1), e(1, 2)), mul(e(1, 1), e(0, 2)))))
			return SV{V: d, T: types.Typ[types.Float64]}
		case "rgba_r", "rgba_g", "rgba_b", "rgba_a":
			// channels returned by c.RGBA() for a symbolic color.Color value
			a := env.expr(x.Args[0], subs)
			si, ok := a.V.(SymIface)
			if !ok {
				sfail("%s of non-symbolic colour (%T)", id.Name, a.V)
			}
			k := map[string]int{"rgba_r": 0, "rgba_g": 1, "rgba_b": 2, "rgba_a": 3}[id.Name]
			u32 := types.Typ[types.Uint32]
			sig := types.NewSignatureType(nil, nil, nil, nil, types.NewTuple(types.NewVar(0, nil, "r", u32), types.NewVar(0, nil, "g", u32), types.NewVar(0, nil, "b", u32), types.NewVar(0, nil, "a", u32)), false)
			rets := vc.symMethodResults(env.st, si, "(image/color.Color).RGBA", sig, nil)
			return SV{V: rets[k], T: u32}
		case "zlib_ok", "zlib_len", "zlib_at":
			// spec view of the assumed zlib contract: (stream, offset, nbytes[, j])
			as := env.args(x, subs)
			st0, _, ok := env.streamOf(as[0])
			if !ok {
				sfail("%s: first argument must be a stream", id.Name)
			}
			off := vc.iAdd(st0.Base, env.idxTerm(as[1]))
			n := env.idxTerm(as[2])
			is := vc.intSort(64)
			switch id.Name {
			case "zlib_ok":
				return SV{V: And(vc.ufApp("zlib_header_ok", SBool, st0.Data, off, n), vc.ufApp("zlib_body_ok", SBool, st0.Data, off, n)), T: boolT}
			case "zlib_len":
				l := vc.ufApp("zlib_inflate_len", is, st0.Data, off, n)
				l.Signed = true
				return SV{V: l, T: types.Typ[types.Int]}
			default:
				arr := vc.ufApp("zlib_inflate", ArrSort(is, vc.byteSort()), st0.Data, off, n)
				return SV{V: Select(arr, env.idxTerm(as[3])), T: types.Typ[types.Uint8]}
			}
		case "neverwritten":
			// neverwritten(buf): the bytes.Buffer has not been written to (its Bytes() is nil)
			a := env.expr(x.Args[0], subs)
			v := a.V
			if p, ok := v.(PtrVal); ok && p.Cell != nil {
				v = vc.load(env.st, p)
			}
			b, ok := v.(BufferObj)
			if !ok {
				sfail("neverwritten: not a bytes.Buffer (%T)", v)
			}
			if b.Fresh {
				return SV{V: TTrue(), T: boolT}
			}
			if b.FreshT != nil {
				return SV{V: *b.FreshT, T: boolT}
			}
			return SV{V: TFalse(), T: boolT}
		case "was_set", "last_set":
			// ghost pixel store of a symbolic draw.Image: was Set called for (x, y), and with which colour last
			as := env.args(x, subs)
			si, ok := as[0].V.(SymIface)
			if !ok {
				sfail("%s: not a symbolic image", id.Name)
			}
			cell := vc.ghostImgCell(env.st, si, false)
			if cell == nil {
				sfail("%s: the image has no ghost pixel store in this state", id.Name)
			}
			g := env.st.mem[cell].(GhostImg)
			key := vc.pixelKey(env.idxTerm(as[1]), env.idxTerm(as[2]))
			if id.Name == "was_set" {
				return SV{V: Select(g.Set, key), T: types.Typ[types.Bool]}
			}
			var T types.Type
			for _, p := range vc.eng.prog.AllPackages() {
				if p.Pkg.Path() == "image/color" {
					T = p.Pkg.Scope().Lookup("RGBA64").Type()
				}
			}
			return SV{V: StructVal{F: []Val{Select(g.Ch[0], key), Select(g.Ch[1], key), Select(g.Ch[2], key), Select(g.Ch[3], key)}}, T: T}
		case "dyn":
			// dyn(x): the concrete value held by an interface whose dynamic type the scenario fixes
			a := env.expr(x.Args[0], subs)
			iv, ok := a.V.(IfaceVal)
			if !ok || iv.Dyn == nil {
				sfail("dyn: %s does not hold a value of a known dynamic type", exprString(x.Args[0]))
			}
			return SV{V: iv.V, T: iv.Dyn}
		case "buf_len", "buf_at":
			// contents of a bytes.Buffer: its length, its j-th unread byte
			a := env.expr(x.Args[0], subs)
			v := a.V
			if p, ok := v.(PtrVal); ok && p.Cell != nil {
				v = vc.load(env.st, p)
			}
			var b BufferObj
			switch bv := v.(type) {
			case BufferObj:
				b = bv
			case StructVal:
				// a zero bytes.Buffer that has not been touched yet
				b = BufferObj{Content: ConstArray(ArrSort(vc.intSort(64), vc.byteSort()), vc.zeroByte()), Base: vc.idx(0), Len: vc.idx(0), Fresh: true}
			default:
				sfail("%s: not a bytes.Buffer (%T)", id.Name, v)
			}
			if id.Name == "buf_len" {
				l := b.Len
				l.Signed = true
				return SV{V: l, T: types.Typ[types.Int]}
			}
			j := env.idxTerm(env.expr(x.Args[1], subs))
			return SV{V: Select(b.Content, vc.iAdd(b.Base, j)), T: types.Typ[types.Uint8]}
		case "stream_len", "stream_at", "stream_err":
			// what a reader value will still deliver: length, byte j, and the final error
			as := env.args(x, subs)
			ln, at, e, ok := vc.streamView(env.st, as[0].V)
			if !ok {
				sfail("%s: argument is not a readable ghost stream (%T)", id.Name, as[0].V)
			}
			switch id.Name {
			case "stream_len":
				return SV{V: ln, T: types.Typ[types.Int]}
			case "stream_err":
				return SV{V: e, T: nil}
			default:
				return SV{V: at(env.idxTerm(as[1])), T: types.Typ[types.Uint8]}
			}
		case "ufc":
			// ufc("name", r): an uninterpreted function of the bytes r has still to deliver
			as := env.args(x, subs)
			if as[0].C == nil {
				sfail("ufc: first argument must be a string literal")
			}
			name := constant.StringVal(as[0].C)
			s0, _, ok := env.streamOf(as[1])
			if !ok {
				sfail("ufc: second argument must be a stream")
			}
			off := vc.iAdd(s0.Base, s0.Pos)
			n := vc.iSub(s0.Len, s0.Pos)
			if strings.HasPrefix(name, "ok_") {
				return SV{V: vc.ufApp("content!"+name, SBool, s0.Data, off, n), T: boolT}
			}
			u32 := types.Typ[types.Uint32]
			srt, _ := vc.sortOf(u32)
			return SV{V: vc.ufApp("content!"+name, srt, s0.Data, off, n), T: u32}
		case "recovered":
			return SV{V: TBool(true), T: boolT}
		case "Pow":
			as := env.args(x, subs)
			f64 := types.Typ[types.Float64]
			a := env.asTerm(env.coerce(as[0], SV{T: f64}), "Pow")
			b := env.asTerm(env.coerce(as[1], SV{T: f64}), "Pow")
			return SV{V: vc.powApp(a, b), T: f64}
		case "Sprintf":
			as := env.args(x, subs)
			if as[0].C == nil {
				sfail("Sprintf format must be a literal")
			}
			var ts []Term
			for _, a := range as[1:] {
				ts = append(ts, env.asTerm(a, "Sprintf"))
			}
			return SV{V: vc.sprintfApp(constant.StringVal(as[0].C), ts), T: types.Typ[types.String]}
		case "Date":
			as := env.args(x, subs)
			var ts []Term
			for _, a := range as {
				t := env.asTerm(env.coerce(a, SV{T: types.Typ[types.Int]}), "Date")
				ts = append(ts, t)
			}
			return SV{V: vc.ufApp("time.Date", OpaqueSort("T_time.Time"), ts...)}
		case "utf16str":
			// utf16str(data, off, nbytes): string(utf16.Decode(big-endian code units))
			as := env.args(x, subs)
			sl, ok := as[0].V.(SliceVal)
			if !ok {
				sfail("utf16str: first argument must be a byte slice")
			}
			arr := vc.load(env.st, sl.Base).(Term)
			off := vc.iAdd(sl.Off, env.idxTerm(as[1]))
			n := env.idxTerm(as[2])
			return SV{V: vc.ufApp("utf16be_string", SStr, arr, off, n), T: types.Typ[types.String]}
		case "asciistr":
			as := env.args(x, subs)
			sl, ok := as[0].V.(SliceVal)
			if !ok {
				sfail("asciistr: first argument must be a byte slice")
			}
			arr := vc.load(env.st, sl.Base).(Term)
			off := vc.iAdd(sl.Off, env.idxTerm(as[1]))
			n := env.idxTerm(as[2])
			return SV{V: vc.ufApp("string_of_"+sanitize(arr.S.Elem.String()), SStr, arr, off, n), T: types.Typ[types.String]}
		}
		// conversion to a basic/named type
		if T := vc.eng.lookupType(env.pkg, id.Name); T != nil {
			if _, isLocalFn := env.lookupFnIdent(id.Name); !isLocalFn {
				return env.conversion(T, env.expr(x.Args[0], subs))
			}
		}
	}
	if T := env.typeOfExpr(x.Fun); T != nil && len(x.Args) == 1 {
		if _, isSel := x.Fun.(*ast.SelectorExpr); isSel {
			return env.conversion(T, env.expr(x.Args[0], subs))
		}
	}
	// method call on a value: recv.Method(args)
	if sel, ok := x.Fun.(*ast.SelectorExpr); ok {
		recv := env.expr(sel.X, subs)
		if _, isPkg := recv.V.(pkgRef); !isPkg && recv.Ty == nil {
			if recv.T == nil {
				sfail("method call on untyped value in %s", exprString(x))
			}
			obj, _, _ := types.LookupFieldOrMethod(recv.T, true, env.typesPkg(), sel.Sel.Name)
			if obj == nil {
				if n, ok := derefNamed(recv.T); ok && n.Obj().Pkg() != nil {
					obj, _, _ = types.LookupFieldOrMethod(recv.T, true, n.Obj().Pkg(), sel.Sel.Name)
				}
			}
			if si, ok := recv.V.(SymIface); ok {
				mf, ok := obj.(*types.Func)
				if !ok {
					sfail("no method %s on symbolic interface", sel.Sel.Name)
				}
				sig := mf.Type().(*types.Signature)
				var as []Val
				for i, a := range x.Args {
					sv := env.expr(a, subs)
					if sv.C != nil {
						as = append(as, vc.constOf(sv.C, sig.Params().At(i).Type()))
					} else {
						as = append(as, sv.V)
					}
				}
				rets := vc.symMethodResults(env.st, si, mf.FullName(), sig, as)
				if len(rets) == 1 {
					return SV{V: rets[0], T: sig.Results().At(0).Type()}
				}
				return SV{V: TupleVal(rets)}
			}
			if mf, ok := obj.(*types.Func); ok {
				fn := vc.eng.prog.FuncValue(mf)
				if fn == nil {
					sfail("no SSA for method %s", sel.Sel.Name)
				}
				args := []Val{recv.V}
				args = append(args, env.callArgs(fn, x.Args, subs, 1)...)
				// embedded receiver promotion: fn's receiver type may be the embedded struct
				args[0] = env.adjustRecv(recv, fn)
				return env.callRepo(fn, args)
			}
			// field of function type
			f := env.field(recv, sel.Sel.Name)
			if fv, ok := f.V.(FuncVal); ok {
				return env.callFuncVal(fv, f.T, x.Args, subs)
			}
			sfail("unknown method %s in %s", sel.Sel.Name, exprString(x))
		}
	}
	if id, ok := x.Fun.(*ast.Ident); ok && env.fr != nil {
		for f := env.fr; f != nil; f = f.parent {
			if g, ok := f.ghost["fun:"+id.Name].(ghostFun); ok {
				var ts []Term
				for i, a := range x.Args {
					sv := env.expr(a, subs)
					T := vc.eng.lookupType(env.pkg, g.Args[i])
					if sv.C != nil && T != nil {
						ts = append(ts, vc.constOf(sv.C, T).(Term))
					} else {
						ts = append(ts, env.asTerm(sv, "ghost function argument"))
					}
				}
				RT := vc.eng.lookupType(env.pkg, g.Res)
				rs, ok := vc.sortOf(RT)
				if !ok {
					sfail("ghost function %s has non-scalar result", g.Name)
				}
				t := vc.ufApp("ghost!"+sanitize(vc.curFunc)+"!"+g.Name, rs, ts...)
				t.Signed = isSigned(RT)
				return SV{V: t, T: RT}
			}
		}
	}
	f := env.expr(x.Fun, subs)
	if fv, ok := f.V.(FuncVal); ok {
		return env.callFuncVal(fv, f.T, x.Args, subs)
	}
	sfail("cannot call %s", exprString(x.Fun))
	return SV{}
}

func derefNamed(T types.Type) (*types.Named, bool) {
	if p, ok := T.(*types.Pointer); ok {
		T = p.Elem()
	}
	n, ok := T.(*types.Named)
	return n, ok
}

func (env *SpecEnv) adjustRecv(recv SV, fn *ssa.Function) Val {
	want := fn.Signature.Recv().Type()
	have := recv.T
	if types.Identical(want, have) {
		return recv.V
	}
	// pointer receiver wanted, value given or vice versa
	if pt, ok := have.Underlying().(*types.Pointer); ok && types.Identical(pt.Elem(), want) {
		return env.vc.load(env.st, recv.V.(PtrVal))
	}
	// promoted through embedding: find path
	wantNamed, _ := derefNamed(want)
	if st, ok := have.Underlying().(*types.Struct); ok && wantNamed != nil {
		for i := 0; i < st.NumFields(); i++ {
			if st.Field(i).Embedded() && types.Identical(st.Field(i).Type(), wantNamed) {
				return recv.V.(StructVal).F[i]
			}
		}
	}
	return recv.V
}

func (env *SpecEnv) lookupFnIdent(name string) (*ssa.Function, bool) {
	if env.pkg == nil {
		return nil, false
	}
	if fn := env.pkg.Func(name); fn != nil {
		return fn, true
	}
	if alt := env.vc.eng.renamedPkgObject(env.pkg.Pkg, name); alt != "" {
		if fn := env.pkg.Func(alt); fn != nil {
			return fn, true
		}
	}
	return nil, false
}

func (env *SpecEnv) callArgs(fn *ssa.Function, args []ast.Expr, subs map[string]*SpecExpr, skip int) []Val {
	var r []Val
	for i, a := range args {
		sv := env.expr(a, subs)
		pt := fn.Params[i+skip].Type()
		if sv.C != nil {
			r = append(r, env.vc.constOf(sv.C, pt))
		} else {
			r = append(r, sv.V)
		}
	}
	return r
}

func (env *SpecEnv) callFuncVal(fv FuncVal, T types.Type, args []ast.Expr, subs map[string]*SpecExpr) SV {
	vc := env.vc
	if fv.Sym != "" {
		sig := fv.Sig
		var as []Val
		for i, a := range args {
			sv := env.expr(a, subs)
			if sv.C != nil {
				as = append(as, vc.constOf(sv.C, sig.Params().At(i).Type()))
			} else {
				as = append(as, sv.V)
			}
		}
		rets := vc.ufCall(fv.Sym, sig, as)
		if len(rets) == 1 {
			return SV{V: rets[0], T: sig.Results().At(0).Type()}
		}
		return SV{V: TupleVal(rets)}
	}
	if fv.Fn == nil {
		sfail("call of nil function in spec")
	}
	as := env.callArgs(fv.Fn, args, subs, 0)
	return env.callRepo(fv.Fn, as)
}

// callRepo: a repo function used in a spec. Opaque functions become UF applications;
// others are evaluated by symbolic execution with the paths merged.
func (env *SpecEnv) callRepo(fn *ssa.Function, args []Val) SV {
	vc := env.vc
	fc := vc.eng.contractFor(fn, vc.mode)
	rs := fn.Signature.Results()
	if (fc != nil && fc.Opaque) || len(fn.Blocks) == 0 {
		rets := vc.ufCall(funcSym(fn), fn.Signature, args)
		if len(rets) == 1 {
			return SV{V: rets[0], T: rs.At(0).Type()}
		}
		return SV{V: TupleVal(rets)}
	}
	rets := vc.evalPure(fn, args, env.st, env.fr)
	if len(rets) == 1 {
		return SV{V: rets[0], T: rs.At(0).Type()}
	}
	return SV{V: TupleVal(rets)}
}

// evalPure executes fn and merges all normally-returning paths into one value.
func (vc *VC) evalPure(fn *ssa.Function, args []Val, st *State, parent *Frame) []Val {
	s2 := st.Clone()
	base := len(s2.pc)
	vc.dry++
	savedLog := vc.writeLog
	vc.writeLog = nil
	var outs []Outcome
	func() {
		defer func() { vc.dry--; vc.writeLog = savedLog }()
		var pf *Frame
		if parent != nil {
			pf = &Frame{depth: parent.depth}
		}
		outs = vc.callStaticPure(fn, args, s2, pf)
	}()
	var res []Val
	first := true
	for i := len(outs) - 1; i >= 0; i-- {
		o := outs[i]
		if o.Panic {
			continue
		}
		// a fact holds under the branch guards that precede it on the path (not under later ones)
		var guards, facts []Term
		for k := base; k < len(o.St.pc); k++ {
			if k < len(o.St.isFact) && o.St.isFact[k] {
				facts = append(facts, Implies(And(guards...), o.St.pc[k]))
			} else {
				guards = append(guards, o.St.pc[k])
			}
		}
		cond := And(guards...)
		// facts established along this path (assumed contracts of callees, ...) hold
		// whenever the path is taken: hand them to the caller
		for _, f := range facts {
			st.Fact(f)
		}
		// memory effects of the evaluated call on fresh cells are kept so returned
		// slices/pointers remain readable
		for c, v := range o.St.mem {
			if _, ok := st.mem[c]; !ok {
				st.mem[c] = v
			}
		}
		if first {
			res = append([]Val(nil), o.Ret...)
			first = false
			continue
		}
		for k := range res {
			res[k] = vc.iteVal(cond, o.Ret[k], res[k])
		}
	}
	if first {
		sfail("pure evaluation of %s has no returning path", fn.Name())
	}
	return res
}

func (vc *VC) callStaticPure(fn *ssa.Function, args []Val, st *State, parent *Frame) []Outcome {
	if h, ok := extHandlers[fn.String()]; ok {
		return h(vc, parent, st, args, token.NoPos)
	}
	return vc.callFunction(fn, args, nil, st, parent)
}

func (env *SpecEnv) sameVal(a, b Val) Term {
	switch x := a.(type) {
	case Term:
		return Eq(x, b.(Term))
	case StructVal:
		y := b.(StructVal)
		var cs []Term
		for i := range x.F {
			cs = append(cs, env.sameVal(x.F[i], y.F[i]))
		}
		return And(cs...)
	case ArrVal:
		y := b.(ArrVal)
		var cs []Term
		for i := range x.E {
			cs = append(cs, env.sameVal(x.E[i], y.E[i]))
		}
		return And(cs...)
	}
	return env.vc.eqVal(a, b)
}

func (env *SpecEnv) conversion(T types.Type, a SV) SV {
	vc := env.vc
	if a.C != nil {
		if _, ok := T.Underlying().(*types.Basic); ok {
			// constant conversion (truncating float->int is not allowed in Go for constants)
			cv := a.C
			if b := T.Underlying().(*types.Basic); b.Info()&types.IsInteger != 0 {
				cv = constant.ToInt(cv)
			}
			return SV{V: vc.constOf(cv, T), T: T}
		}
	}
	if a.T == nil {
		t := env.asTerm(a, "conversion")
		// from math sorts
		if s, ok := vc.sortOf(T); ok {
			switch {
			case t.S.Eq(s):
				return SV{V: t, T: T}
			case t.S.K == KInt && s.K == KReal:
				return SV{V: Int2Real(t), T: T}
			case t.S.K == KInt && s.K == KBV:
				return SV{V: Term{S: s, E: fmt.Sprintf("((_ int2bv %d) %s)", s.N, t.E), Signed: isSigned(T)}, T: T}
			case t.S.K == KBV && s.K == KBV:
				return SV{V: BVResize(t, s.N, t.Signed, isSigned(T)), T: T}
			}
		}
		sfail("cannot convert untyped %s to %v", t.S, T)
	}
	return SV{V: vc.convert(a.V, a.T, T, env.st), T: T}
}

func (env *SpecEnv) streamRead(kind string, as []SV) SV {
	vc := env.vc
	if len(as) != 2 {
		sfail("%s(stream, position)", kind)
	}
	var data Term
	var base Term
	if s, _, ok := env.streamOf(as[0]); ok {
		data, base = s.Data, s.Base
	} else if sl, ok := as[0].V.(SliceVal); ok {
		if sl.Base.Cell == nil {
			sfail("%s on nil slice", kind)
		}
		data = vc.load(env.st, sl.Base).(Term)
		base = sl.Off
	} else {
		sfail("%s: first argument is neither a stream nor a byte slice (%T)", kind, as[0].V)
	}
	p := vc.iAdd(base, env.idxTerm(as[1]))
	at := func(k int64) Term {
		return Select(data, vc.iAdd(p, vc.idx(k)))
	}
	if vc.mode.IntMath {
		// bytes as Int
		cat := func(ks ...int64) Term {
			r := at(ks[0])
			for _, k := range ks[1:] {
				r = NumAdd(NumMul(r, IntConst(big.NewInt(256))), at(k))
			}
			return r
		}
		switch kind {
		case "u8":
			return SV{V: at(0), T: types.Typ[types.Uint8]}
		case "be16":
			return SV{V: cat(0, 1), T: types.Typ[types.Uint16]}
		case "be32":
			return SV{V: cat(0, 1, 2, 3), T: types.Typ[types.Uint32]}
		case "le32":
			return SV{V: cat(3, 2, 1, 0), T: types.Typ[types.Uint32]}
		case "le24":
			return SV{V: cat(2, 1, 0), T: types.Typ[types.Uint32]}
		}
		sfail("%s unsupported in math mode", kind)
	}
	switch kind {
	case "u8":
		return SV{V: at(0), T: types.Typ[types.Uint8]}
	case "be16":
		return SV{V: Concat(at(0), at(1)), T: types.Typ[types.Uint16]}
	case "le16":
		return SV{V: Concat(at(1), at(0)), T: types.Typ[types.Uint16]}
	case "be32":
		return SV{V: Concat(Concat(at(0), at(1)), Concat(at(2), at(3))), T: types.Typ[types.Uint32]}
	case "le32":
		return SV{V: Concat(Concat(at(3), at(2)), Concat(at(1), at(0))), T: types.Typ[types.Uint32]}
	case "le24":
		return SV{V: Concat(BVConstI(0, 8, false), Concat(at(2), Concat(at(1), at(0)))), T: types.Typ[types.Uint32]}
	case "be64":
		hi := Concat(Concat(at(0), at(1)), Concat(at(2), at(3)))
		lo := Concat(Concat(at(4), at(5)), Concat(at(6), at(7)))
		return SV{V: Concat(hi, lo), T: types.Typ[types.Uint64]}
	}
	sfail("unknown stream function %s", kind)
	return SV{}
}


// expandBounded expands `forall v.. :: lo <= v && v < hi && ... ==> body` with constant
// bounds into a finite conjunction (exists: disjunction).
func (env *SpecEnv) expandBounded(se *SpecExpr) (SV, bool) {
	body := se.A
	var guard *SpecExpr
	if se.Kind == "forall" {
		if body.Kind != "imp" {
			return SV{}, false
		}
		guard, body = body.A, body.B
	} else {
		return SV{}, false
	}
	if guard.Kind != "go" {
		return SV{}, false
	}
	lo := map[string]int64{}
	hi := map[string]int64{}
	var walk func(e ast.Expr) bool
	walk = func(e ast.Expr) bool {
		switch x := e.(type) {
		case *ast.ParenExpr:
			return walk(x.X)
		case *ast.BinaryExpr:
			if x.Op == token.LAND {
				return walk(x.X) && walk(x.Y)
			}
			cv := func(e ast.Expr) (int64, bool) {
				bl, ok := e.(*ast.BasicLit)
				if !ok || bl.Kind != token.INT {
					return 0, false
				}
				v, ok := constant.Int64Val(constant.MakeFromLiteral(bl.Value, bl.Kind, 0))
				return v, ok
			}
			id := func(e ast.Expr) (string, bool) {
				i, ok := e.(*ast.Ident)
				if !ok {
					return "", false
				}
				return i.Name, true
			}
			if c, ok := cv(x.X); ok {
				if v, ok := id(x.Y); ok {
					switch x.Op {
					case token.LEQ:
						lo[v] = c
						return true
					case token.LSS:
						lo[v] = c + 1
						return true
					}
				}
			}
			if c, ok := cv(x.Y); ok {
				if v, ok := id(x.X); ok {
					switch x.Op {
					case token.LSS:
						hi[v] = c
						return true
					case token.LEQ:
						hi[v] = c + 1
						return true
					}
				}
			}
		}
		return false
	}
	if !walk(guard.Go) {
		return SV{}, false
	}
	total := int64(1)
	for _, v := range se.Vars {
		l, ok1 := lo[v.Name]
		h, ok2 := hi[v.Name]
		if !ok1 || !ok2 || h-l > 64 || h < l {
			return SV{}, false
		}
		total *= (h - l)
		if total > 256 {
			return SV{}, false
		}
	}
	if len(lo) != len(se.Vars) || len(hi) != len(se.Vars) {
		return SV{}, false
	}
	var conj []Term
	var rec func(k int)
	saved := map[string]*SV{}
	for _, v := range se.Vars {
		if o, ok := env.bound[v.Name]; ok {
			oo := o
			saved[v.Name] = &oo
		} else {
			saved[v.Name] = nil
		}
	}
	if env.bound == nil {
		env.bound = map[string]SV{}
	}
	rec = func(k int) {
		if k == len(se.Vars) {
			conj = append(conj, env.term(body))
			return
		}
		v := se.Vars[k]
		T := env.vc.eng.lookupType(env.pkg, v.Type)
		for x := lo[v.Name]; x < hi[v.Name]; x++ {
			if T != nil {
				env.bound[v.Name] = SV{V: env.vc.intConst(x, T), T: T}
			} else {
				env.bound[v.Name] = SV{V: IntConst(big.NewInt(x))}
			}
			rec(k + 1)
		}
	}
	rec(0)
	for k, o := range saved {
		if o == nil {
			delete(env.bound, k)
		} else {
			env.bound[k] = *o
		}
	}
	return SV{V: And(conj...), T: types.Typ[types.Bool]}, true
}


// resultType finds the static type of the k-th result of a call expression in a spec.
func (env *SpecEnv) resultType(ce *ast.CallExpr, k int) types.Type {
	if sel, ok := ce.Fun.(*ast.SelectorExpr); ok {
		defer func() { recover() }()
		recv := env.expr(sel.X, nil)
		if recv.T != nil {
			obj, _, _ := types.LookupFieldOrMethod(recv.T, true, env.typesPkg(), sel.Sel.Name)
			if mf, ok := obj.(*types.Func); ok {
				rs := mf.Type().(*types.Signature).Results()
				if k < rs.Len() {
					return rs.At(k).Type()
				}
			}
		}
		if pr, ok := recv.V.(pkgRef); ok {
			if o, ok := pr.p.Scope().Lookup(sel.Sel.Name).(*types.Func); ok {
				rs := o.Type().(*types.Signature).Results()
				if k < rs.Len() {
					return rs.At(k).Type()
				}
			}
		}
	}
	return nil
}
