package main

// Further standard-library and builtin operations, so that behaviour-preserving refactors that use
// them stay inside the verified subset: bytes.Equal, bytes.HasPrefix (assumed, A-STD), the builtins
// copy and append over slices of scalars.

import (
	"fmt"
	"go/token"
	"go/types"
	"math/big"

	"golang.org/x/tools/go/ssa"
)

func init() {
	extHandlers["bytes.Equal"] = func(vc *VC, fr *Frame, st *State, args []Val, pos token.Pos) []Outcome {
		vc.assume("A-STD")
		a, b := args[0].(SliceVal), args[1].(SliceVal)
		return one(st, vc.define("bytes_equal", And(Eq(a.Len, b.Len), vc.sliceRangeEq(st, a, b, a.Len))))
	}
	extHandlers["bytes.HasPrefix"] = func(vc *VC, fr *Frame, st *State, args []Val, pos token.Pos) []Outcome {
		vc.assume("A-STD")
		a, b := args[0].(SliceVal), args[1].(SliceVal)
		return one(st, vc.define("bytes_hasprefix", And(vc.iLe(b.Len, a.Len, true), vc.sliceRangeEq(st, a, b, b.Len))))
	}
}

// elemAt: the k-th element of a slice of scalars (k relative to the slice).
func (vc *VC) elemAt(st *State, s SliceVal, k Term) Term {
	if s.Base.Cell == nil {
		panic(execError{"element of a nil slice"})
	}
	idx := vc.iAdd(s.Off, k)
	v := vc.load(st, s.Base.Extend(PathElem{Field: -1, Idx: &idx}))
	t, ok := v.(Term)
	if !ok {
		panic(execError{fmt.Sprintf("slice element is not a scalar (%T)", v)})
	}
	return t
}

// sliceRangeEq: a[k] == b[k] for all 0 <= k < n. Expanded when n is a small constant.
func (vc *VC) sliceRangeEq(st *State, a, b SliceVal, n Term) Term {
	if n.C != nil && n.C.IsInt64() && n.C.Int64() <= 64 {
		var cs []Term
		for k := int64(0); k < n.C.Int64(); k++ {
			cs = append(cs, Eq(vc.elemAt(st, a, vc.idx(k)), vc.elemAt(st, b, vc.idx(k))))
		}
		return And(cs...)
	}
	if a.Base.Cell == nil || b.Base.Cell == nil {
		// one side is nil: only n == 0 makes the range empty
		return Eq(n, vc.idx(0))
	}
	is := vc.intSort(64)
	vc.nfresh++
	q := Term{S: is, E: fmt.Sprintf("k!q%d", vc.nfresh), Signed: true}
	body := Implies(And(vc.iLe(vc.idx(0), q, true), vc.iLt(q, n, true)), Eq(vc.elemAt(st, a, q), vc.elemAt(st, b, q)))
	return Term{S: SBool, E: fmt.Sprintf("(forall ((%s %s)) %s)", q.E, is.String(), body.E)}
}

// builtinCopy: copy(dst, src) over slices of scalars; returns min(len(dst), len(src)).
func (vc *VC) builtinCopy(fr *Frame, st *State, args []Val) []Outcome {
	dst, ok1 := args[0].(SliceVal)
	src, ok2 := args[1].(SliceVal)
	if !ok1 || !ok2 {
		panic(execError{"copy: only slices of scalars are supported"})
	}
	n := Ite(vc.iLe(dst.Len, src.Len, true), dst.Len, src.Len)
	if dst.Base.Cell == nil || src.Base.Cell == nil {
		return one(st, vc.idx(0))
	}
	vc.writeSliceRange(st, dst, vc.idx(0), n, func(k Term) Term { return vc.elemAt(st, src, k) })
	return one(st, n)
}

// writeSliceRange stores elem(k) into s[from+k] for 0 <= k < n (everything else unchanged).
func (vc *VC) writeSliceRange(st *State, s SliceVal, from, n Term, elem func(k Term) Term) {
	arrV := vc.load(st, s.Base)
	switch a := arrV.(type) {
	case ArrVal:
		ne := make([]Val, len(a.E))
		for i := range a.E {
			rel := vc.iSub(vc.iSub(vc.idx(int64(i)), s.Off), from)
			inside := And(vc.iLe(vc.idx(0), rel, true), vc.iLt(rel, n, true))
			old, ok := a.E[i].(Term)
			if !ok {
				panic(execError{"copy into an array of non-scalars"})
			}
			ne[i] = Ite(inside, elem(rel), old)
		}
		vc.store(st, s.Base, ArrVal{E: ne})
	case Term:
		if a.S.K != KArr {
			panic(execError{"copy into a non-array"})
		}
		na := vc.freshTerm("copied", a.S)
		is := vc.intSort(64)
		vc.nfresh++
		q := Term{S: is, E: fmt.Sprintf("j!q%d", vc.nfresh), Signed: true}
		rel := vc.iSub(vc.iSub(q, s.Off), from)
		inside := And(vc.iLe(vc.idx(0), rel, true), vc.iLt(rel, n, true))
		body := Eq(Select(na, q), Ite(inside, elem(rel), Select(a, q)))
		st.Fact(Term{S: SBool, E: fmt.Sprintf("(forall ((%s %s)) (! %s :pattern ((select %s %s))))", q.E, is.String(), body.E, na.E, q.E)})
		vc.store(st, s.Base, na)
	default:
		panic(execError{fmt.Sprintf("copy into %T", arrV)})
	}
	st.extWrites++
	if vc.writeLog != nil {
		vc.writeLog[s.Base.Cell] = true
	}
}

// builtinAppend: append(s, t...) over slices of scalars. The result is modelled as a fresh backing array
// holding s followed by t (A-APPEND: sharing of spare capacity with s is not modelled); the growth is an
// allocation of len(s)+len(t) elements.
func (vc *VC) builtinAppend(fr *Frame, st *State, args []Val, c *ssa.CallCommon, pos token.Pos) []Outcome {
	s, ok1 := args[0].(SliceVal)
	t, ok2 := args[1].(SliceVal)
	if !ok1 || !ok2 {
		panic(execError{"append: only slices of scalars are supported"})
	}
	vc.assume("A-APPEND")
	elemT := c.Args[0].Type().Underlying().(*types.Slice).Elem()
	es, ok := vc.sortOf(elemT)
	if !ok {
		panic(execError{"append: element type is not a scalar"})
	}
	is := vc.intSort(64)
	total := vc.iAdd(s.Len, t.Len)
	vc.allocObligation(fr, st, total, elemT, pos)
	na := vc.freshTerm("appended", ArrSort(is, es))
	vc.nfresh++
	q := Term{S: is, E: fmt.Sprintf("j!q%d", vc.nfresh), Signed: true}
	var fromS, fromT Term
	if s.Base.Cell != nil {
		fromS = vc.elemAt(st, s, q)
	} else {
		fromS = vc.zero(elemT).(Term)
	}
	if t.Base.Cell != nil {
		fromT = vc.elemAt(st, t, vc.iSub(q, s.Len))
	} else {
		fromT = vc.zero(elemT).(Term)
	}
	inS := And(vc.iLe(vc.idx(0), q, true), vc.iLt(q, s.Len, true))
	inT := And(vc.iLe(s.Len, q, true), vc.iLt(q, total, true))
	body := And(Implies(inS, Eq(Select(na, q), fromS)), Implies(inT, Eq(Select(na, q), fromT)))
	st.Fact(Term{S: SBool, E: fmt.Sprintf("(forall ((%s %s)) (! %s :pattern ((select %s %s))))", q.E, is.String(), body.E, na.E, q.E)})
	cell := vc.newCell("append", "heap", nil)
	st.mem[cell] = na
	cp := vc.freshTerm("appendcap", is)
	cp.Signed = true
	st.Fact(vc.iLe(total, cp, true))
	st.Fact(vc.iLe(cp, vc.idxBig(maxLenBound), true))
	// append(nil, empty...) stays nil
	isnil := And(s.IsNil, Eq(t.Len, vc.idx(0)))
	return one(st, SliceVal{Base: PtrVal{Cell: cell}, Off: vc.idx(0), Len: total, Cap: cp, IsNil: isnil})
}

// ---- math: exact IEEE operations (ieee mode) or their real counterparts ----------------------------

func init() {
	un := func(name string, f func(vc *VC, st *State, x Term) Term) {
		extHandlers["math."+name] = func(vc *VC, fr *Frame, st *State, args []Val, pos token.Pos) []Outcome {
			return one(st, f(vc, st, args[0].(Term)))
		}
	}
	un("Abs", func(vc *VC, st *State, x Term) Term {
		if x.S.K == KFP {
			return Term{S: x.S, E: app("fp.abs", x)}
		}
		return Ite(NumCmp("<", x, RealConst(new(big.Rat))), NumNeg(x), x)
	})
	round := func(mode string) func(vc *VC, st *State, x Term) Term {
		return func(vc *VC, st *State, x Term) Term {
			if x.S.K == KFP {
				return Term{S: x.S, E: fmt.Sprintf("(fp.roundToIntegral %s %s)", mode, x.E)}
			}
			fl := func(t Term) Term { return Term{S: SReal, E: fmt.Sprintf("(to_real (to_int %s))", t.E)} }
			half := RealConst(big.NewRat(1, 2))
			zero := RealConst(new(big.Rat))
			switch mode {
			case "RTN":
				return fl(x)
			case "RTP":
				return NumNeg(fl(NumNeg(x)))
			case "RTZ":
				return Ite(NumCmp(">=", x, zero), fl(x), NumNeg(fl(NumNeg(x))))
			case "RNA":
				return Ite(NumCmp(">=", x, zero), fl(NumAdd(x, half)), NumNeg(fl(NumAdd(NumNeg(x), half))))
			}
			panic(execError{"math.RoundToEven over the reals is not modelled"})
		}
	}
	un("Floor", round("RTN"))
	un("Ceil", round("RTP"))
	un("Trunc", round("RTZ"))
	un("Round", round("RNA"))
	un("RoundToEven", round("RNE"))
	un("Sqrt", func(vc *VC, st *State, x Term) Term {
		if x.S.K == KFP {
			return Term{S: x.S, E: fmt.Sprintf("(fp.sqrt RNE %s)", x.E)}
		}
		panic(execError{"math.Sqrt over the reals is not modelled"})
	})
	un("IsNaN", func(vc *VC, st *State, x Term) Term {
		if x.S.K == KFP {
			return Term{S: SBool, E: app("fp.isNaN", x)}
		}
		return TFalse()
	})
	bin := func(name string, gt string) {
		extHandlers["math."+name] = func(vc *VC, fr *Frame, st *State, args []Val, pos token.Pos) []Outcome {
			x, y := args[0].(Term), args[1].(Term)
			if x.S.K != KFP {
				return one(st, Ite(NumCmp(gt, x, y), x, y))
			}
			nan := Term{S: x.S, E: fmt.Sprintf("(_ NaN %d %d)", map[int]int{32: 8, 64: 11}[x.S.N], map[int]int{32: 24, 64: 53}[x.S.N])}
			isnan := Or(Term{S: SBool, E: app("fp.isNaN", x)}, Term{S: SBool, E: app("fp.isNaN", y)})
			op := "fp.gt"
			if gt == "<" {
				op = "fp.lt"
			}
			xneg := Term{S: SBool, E: app("fp.isNegative", x)}
			// equal operands differ at most in the sign of zero: Max prefers +0, Min prefers -0
			tie := Ite(xneg, y, x)
			if gt == "<" {
				tie = Ite(xneg, x, y)
			}
			return one(st, Ite(isnan, nan, Ite(FPCmp(op, x, y), x, Ite(FPCmp(op, y, x), y, tie))))
		}
	}
	bin("Max", ">")
	bin("Min", "<")
}

// ---- output-only calls: no effect on the verified state (A-STD) -----------------------------------
func init() {
	noop := func(vc *VC, fr *Frame, st *State, args []Val, pos token.Pos) []Outcome {
		vc.assume("A-STD")
		return one(st)
	}
	for _, n := range []string{"log.Printf", "log.Println", "log.Print"} {
		extHandlers[n] = noop
	}
	count := func(vc *VC, fr *Frame, st *State, args []Val, pos token.Pos) []Outcome {
		vc.assume("A-STD")
		n := vc.freshTerm("printed", vc.intSort(64))
		n.Signed = true
		st.Fact(vc.iLe(vc.idx(0), n, true))
		return one(st, n, Term{S: SErr, E: "err_nil"})
	}
	for _, n := range []string{"fmt.Printf", "fmt.Println", "fmt.Print"} {
		extHandlers[n] = count
	}
}
