package main

import (
	"fmt"
	"go/types"
	"strings"

	"golang.org/x/tools/go/ssa"
)

// Val is a symbolic Go value. Scalars are Term; aggregates are executor-level structures.
type Val interface{}

type StructVal struct {
	F []Val
}

// ArrVal is a small fixed-size array kept element-wise.
type ArrVal struct {
	E []Val
}

type Cell struct {
	ID   int
	Name string
	Kind string // "local", "heap", "global", "param", "ext"
}

type PathElem struct {
	Field int   // >= 0: struct field
	Idx   *Term // element index (BV64 or Int)
}

type PtrVal struct {
	Cell *Cell // nil => nil pointer
	Path []PathElem
}

func (p PtrVal) IsNil() bool { return p.Cell == nil }

func (p PtrVal) Extend(e PathElem) PtrVal {
	np := make([]PathElem, len(p.Path)+1)
	copy(np, p.Path)
	np[len(p.Path)] = e
	return PtrVal{Cell: p.Cell, Path: np}
}

// SliceVal: Base points to the backing array (ArrVal or array Term).
type SliceVal struct {
	Base  PtrVal
	Off   Term
	Len   Term
	Cap   Term
	IsNil Term // Bool
}

type IfaceVal struct {
	Dyn types.Type // nil => nil interface
	V   Val
}

// SymIface is a symbolic interface value (e.g. a color.Color parameter).
type SymIface struct {
	T    Term // opaque identity
	Type types.Type
}

type FuncVal struct {
	Fn   *ssa.Function
	Bind []Val
	Sym  string // uninterpreted function parameter
	Sig  *types.Signature
	Nil  bool
}

type TupleVal []Val

// MapVal: maps with scalar-encodable keys; stored in a cell via pointer-like handle.
type MapVal struct {
	Cell *Cell // nil => nil map
}

type MapContent struct {
	Present Term // Array K Bool
	Vals    Term // Array K V   (V scalar-encodable) ; zero Term if unsupported
	KeyS    Sort
	ValS    Sort
	Count   Term // number of keys (BV64), ghost
}

// Stream is a ghost byte stream object (content of a cell).
type Stream struct {
	Data   Term // Array BV64 -> BV8 (immutable)
	Base   Term // offset of stream byte 0 within Data
	Len    Term // total bytes available
	Pos    Term // bytes consumed so far
	Name   string
	Exact  bool // bytes.Reader: Read delivers min(len(p), remaining) always
	EOFErr Term // the error returned at end of data
}

// Opaque external objects
type BuilderObj struct{ Len Term }           // strings.Builder: only its length is modelled
type BufferObj struct {
	Content Term
	Base    Term // offset of byte 0 within Content
	Len     Term
	Fresh   bool // never written
	FreshT  *Term // after a havoc: symbolic 'never written' flag
	ViewOf  *Cell // set when the buffer holds exactly the bytes [From, Upto) of that source stream
	From    Term
	Upto    Term
}
type OnceObj struct{ Done Term }

func showVal(v Val) string {
	switch x := v.(type) {
	case Term:
		return x.E
	case StructVal:
		var ss []string
		for _, f := range x.F {
			ss = append(ss, showVal(f))
		}
		return "{" + strings.Join(ss, ", ") + "}"
	case ArrVal:
		var ss []string
		for _, f := range x.E {
			ss = append(ss, showVal(f))
		}
		return "[" + strings.Join(ss, ", ") + "]"
	case PtrVal:
		if x.Cell == nil {
			return "nilptr"
		}
		return fmt.Sprintf("&%s%v", x.Cell.Name, x.Path)
	case SliceVal:
		return fmt.Sprintf("slice(%s off=%s len=%s)", showVal(x.Base), x.Off.E, x.Len.E)
	case nil:
		return "<nil>"
	}
	return fmt.Sprintf("%T", v)
}
