package main

// Assumed contracts (A-IO) of the reader combinators used by the loaders:
// io.TeeReader, bufio.NewReader, io.MultiReader over ghost byte streams.
//
// TeeReader(src, buf): every byte read through the tee is delivered by src and appended to
// buf, so at any time content(buf) == src bytes [p0, src.pos).
// bufio.NewReader(x): a reader over the bytes x has still to deliver; it may have pulled up
// to one buffer (4096 bytes) more from x than its own consumer has read.
// MultiReader(a, b): the bytes of a followed by the bytes of b.

import (
	"fmt"
	"go/token"
	"go/types"

	"golang.org/x/tools/go/ssa"
	"golang.org/x/tools/go/ssa/ssautil"
)

var allFnCache map[*ssa.Function]bool

func ssautilAllFunctions(p *ssa.Program) map[*ssa.Function]bool {
	if allFnCache == nil {
		allFnCache = ssautil.AllFunctions(p)
	}
	return allFnCache
}

type TeeObj struct {
	Src PtrVal // stream cell
	Dst PtrVal // *bytes.Buffer cell
	P0  Term   // src.pos when the tee was created
}

type streamLink struct {
	P   *Cell // the buffered reader's stream cell
	Tee *TeeObj
	Src PtrVal
	P0  Term
}

type MultiObj struct {
	Parts []Val // IfaceVal values in order
}

var teeDyn, multiDyn types.Type

func ghostDyn(name string, slot *types.Type) types.Type {
	if *slot == nil {
		tn := types.NewTypeName(token.NoPos, nil, name, nil)
		*slot = types.NewPointer(types.NewNamed(tn, types.NewStruct(nil, nil), nil))
	}
	return *slot
}

func init() {
	extHandlers["io.TeeReader"] = extTeeReader
	extHandlers["bufio.NewReader"] = extBufioNewReader
	extHandlers["io.MultiReader"] = extMultiReader
	extHandlers["(*image.YCbCr).YOffset"] = func(vc *VC, fr *Frame, st *State, args []Val, pos token.Pos) []Outcome {
		return vc.planeOffset(fr, st, args, "(*image.YCbCr).YOffset", []int{0})
	}
	extHandlers["(*image.YCbCr).COffset"] = func(vc *VC, fr *Frame, st *State, args []Val, pos token.Pos) []Outcome {
		return vc.planeOffset(fr, st, args, "(*image.YCbCr).COffset", []int{1, 2})
	}
	for name, bpp := range map[string]int64{"(*image.RGBA64).PixOffset": 8, "(*image.NRGBA64).PixOffset": 8, "(*image.RGBA).PixOffset": 4, "(*image.NRGBA).PixOffset": 4} {
		bpp := bpp
		extHandlers[name] = func(vc *VC, fr *Frame, st *State, args []Val, pos token.Pos) []Outcome {
			return vc.pixOffset(st, args, bpp)
		}
	}
}

var extHandlersLate []func()

func extTeeReader(vc *VC, fr *Frame, st *State, args []Val, pos token.Pos) []Outcome {
	vc.assume("A-IO")
	sp, s := vc.getStream(st, args[0])
	w, ok := args[1].(IfaceVal)
	if !ok {
		panic(execError{"io.TeeReader writer"})
	}
	wp, ok := w.V.(PtrVal)
	if !ok {
		panic(execError{"io.TeeReader writer is not a *bytes.Buffer"})
	}
	if b, ok := vc.load(st, wp).(BufferObj); !ok || !b.Fresh {
		panic(execError{"io.TeeReader into a non-empty buffer is outside the supported subset"})
	}
	c := vc.newCell("tee", "ext", nil)
	st.mem[c] = TeeObj{Src: sp, Dst: wp, P0: s.Pos}
	return one(st, IfaceVal{Dyn: ghostDyn("ghostTee", &teeDyn), V: PtrVal{Cell: c}})
}

func extBufioNewReader(vc *VC, fr *Frame, st *State, args []Val, pos token.Pos) []Outcome {
	vc.assume("A-IO")
	iv, ok := args[0].(IfaceVal)
	if !ok {
		panic(execError{"bufio.NewReader argument"})
	}
	var src PtrVal
	var tee *TeeObj
	if iv.Dyn == teeDyn && teeDyn != nil {
		t := st.mem[iv.V.(PtrVal).Cell].(TeeObj)
		tee = &t
		src = t.Src
	} else {
		src, _ = vc.getStream(st, iv)
	}
	s := st.mem[src.Cell].(Stream)
	p := Stream{Name: "bufio", Data: s.Data, Base: vc.iAdd(s.Base, s.Pos), Len: vc.iSub(s.Len, s.Pos), Pos: vc.idx(0), EOFErr: s.EOFErr}
	c := vc.newCell("bufio", "ext", nil)
	st.mem[c] = p
	st.links = append(append([]streamLink(nil), st.links...), streamLink{P: c, Tee: tee, Src: src, P0: s.Pos})
	return one(st, PtrVal{Cell: c})
}

// settle propagates what a buffered reader has consumed to the underlying source (and the
// tee's buffer): the source has delivered at least what was consumed and at most one
// bufio buffer more.
func (vc *VC) settle(st *State) {
	for _, l := range st.links {
		p, ok := st.mem[l.P].(Stream)
		if !ok {
			continue
		}
		s, ok := st.mem[l.Src.Cell].(Stream)
		if !ok {
			continue
		}
		u := vc.freshTerm("delivered", vc.intSort(64))
		u.Signed = true
		lo := vc.iAdd(l.P0, p.Pos)
		st.Fact(vc.iLe(lo, u, true))
		st.Fact(vc.iLe(u, s.Len, true))
		st.Fact(vc.iLe(u, vc.iAdd(lo, vc.idx(4096)), true))
		ns := s
		ns.Pos = u
		st.mem[l.Src.Cell] = ns
		st.extWrites++
		if l.Tee != nil {
			st.mem[l.Tee.Dst.Cell] = BufferObj{Content: s.Data, Base: vc.iAdd(s.Base, l.P0), Len: vc.iSub(u, l.P0), ViewOf: l.Src.Cell, From: l.P0, Upto: u}
		}
	}
	st.links = nil
}

func extMultiReader(vc *VC, fr *Frame, st *State, args []Val, pos token.Pos) []Outcome {
	vc.assume("A-IO")
	vc.settle(st)
	sl := args[0].(SliceVal)
	var parts []Val
	if sl.Base.Cell != nil {
		av, ok := vc.load(st, sl.Base).(ArrVal)
		if !ok {
			panic(execError{"io.MultiReader arguments"})
		}
		parts = append(parts, av.E...)
	}
	// canonical case: a buffer holding source bytes [from, u) followed by the source at u
	if len(parts) == 2 {
		if b0, ok := parts[0].(IfaceVal); ok {
			if bp, ok := b0.V.(PtrVal); ok && bp.Cell != nil {
				if buf, ok := st.mem[bp.Cell].(BufferObj); ok && buf.ViewOf != nil {
					if s1, ok := parts[1].(IfaceVal); ok && s1.Dyn == streamDynType() {
						if sp, ok := s1.V.(PtrVal); ok && sp.Cell == buf.ViewOf {
							src := st.mem[sp.Cell].(Stream)
							if src.Pos.E == buf.Upto.E {
								m := Stream{Name: "replay", Data: src.Data, Base: vc.iAdd(src.Base, buf.From), Len: vc.iSub(src.Len, buf.From), Pos: vc.idx(0), EOFErr: src.EOFErr}
								c := vc.newCell("replay", "ext", nil)
								st.mem[c] = m
								return one(st, IfaceVal{Dyn: streamDynType(), V: PtrVal{Cell: c}})
							}
						}
					}
				}
			}
		}
	}
	c := vc.newCell("multi", "ext", nil)
	st.mem[c] = MultiObj{Parts: parts}
	return one(st, IfaceVal{Dyn: ghostDyn("ghostMulti", &multiDyn), V: PtrVal{Cell: c}})
}

// streamView gives (length, byte-at function) of what a reader value will still deliver.
func (vc *VC) streamView(st *State, v Val) (Term, func(j Term) Term, Term, bool) {
	iv, ok := v.(IfaceVal)
	if !ok || iv.Dyn == nil {
		return Term{}, nil, Term{}, false
	}
	p, ok := iv.V.(PtrVal)
	if !ok || p.Cell == nil {
		return Term{}, nil, Term{}, false
	}
	switch o := st.mem[p.Cell].(type) {
	case Stream:
		return vc.iSub(o.Len, o.Pos), func(j Term) Term { return Select(o.Data, vc.iAdd(vc.iAdd(o.Base, o.Pos), j)) }, o.EOFErr, true
	case BufferObj:
		return o.Len, func(j Term) Term { return Select(o.Content, vc.iAdd(o.Base, j)) }, Term{S: SErr, E: "io_EOF", NonNil: true}, true
	case MultiObj:
		total := vc.idx(0)
		var lens []Term
		var ats []func(j Term) Term
		var lastErr Term
		for _, part := range o.Parts {
			l, at, e, ok := vc.streamView(st, part)
			if !ok {
				return Term{}, nil, Term{}, false
			}
			lens = append(lens, l)
			ats = append(ats, at)
			lastErr = e
			total = vc.iAdd(total, l)
		}
		at := func(j Term) Term {
			// piecewise: find the part containing j
			var r Term
			off := vc.idx(0)
			var offs []Term
			for _, l := range lens {
				offs = append(offs, off)
				off = vc.iAdd(off, l)
			}
			for k := len(ats) - 1; k >= 0; k-- {
				v := ats[k](vc.iSub(j, offs[k]))
				if k == len(ats)-1 {
					r = v
				} else {
					r = Ite(vc.iLt(j, vc.iAdd(offs[k], lens[k]), true), v, r)
				}
			}
			return r
		}
		return total, at, lastErr, true
	}
	return Term{}, nil, Term{}, false
}

var _ = fmt.Sprintf


// pixOffset: PixOffset(x, y) = (y-Rect.Min.Y)*Stride + (x-Rect.Min.X)*bpp, and (A-IMG: the
// representation invariant of the image types) for every point inside Rect the pixel's
// bytes lie inside Pix.
func (vc *VC) pixOffset(st *State, args []Val, bpp int64) []Outcome {
	vc.assume("A-IMG")
	p := args[0].(PtrVal)
	img := vc.load(st, p).(StructVal)
	// image.RGBA{Pix []uint8; Stride int; Rect Rectangle{Min, Max Point{X, Y}}}
	pix := img.F[0].(SliceVal)
	stride := img.F[1].(Term)
	rect := img.F[2].(StructVal)
	mn, mx := rect.F[0].(StructVal), rect.F[1].(StructVal)
	x, y := args[1].(Term), args[2].(Term)
	// The offset is an abstract value determined by (image, x, y): the arithmetic
	// (y-Min.Y)*Stride + (x-Min.X)*bpp is not needed by the step contracts and only slows
	// the solvers down (64-bit multiplier). It is kept as an anchored axiom.
	key := fmt.Sprintf("pixoff|%d|%s|%s|%s", p.Cell.ID, stride.E, x.E, y.E)
	if vc.pureCache == nil {
		vc.pureCache = map[string][]Val{}
	}
	var off Term
	fresh := false
	if c, ok := vc.pureCache[key]; ok {
		off = c[0].(Term)
	} else {
		fresh = true
		off = vc.freshTerm("pixoff", vc.intSort(64))
		off.Signed = true
		vc.pureCache[key] = []Val{off}
		formula := vc.iAdd(vc.iMul(vc.iSub(y, mn.F[1].(Term)), stride), vc.iMul(vc.iSub(x, mn.F[0].(Term)), vc.idx(bpp)))
		vc.decl(fmt.Sprintf("(assert (= %s %s)) ;anchor=%s", off.E, formula.E, "pixoffdef!"+off.E))
	}
	inside := And(vc.iLe(mn.F[0].(Term), x, true), vc.iLt(x, mx.F[0].(Term), true), vc.iLe(mn.F[1].(Term), y, true), vc.iLt(y, mx.F[1].(Term), true))
	insideFact := Implies(inside, And(vc.iLe(vc.idx(0), off, true), vc.iLe(vc.iAdd(off, vc.idx(bpp)), pix.Len, true), vc.iLe(off, vc.idxBig(maxLenBound), true)))
	st.Fact(insideFact)
	if fresh {
		// The facts below are about immutable quantities (this offset, the image's Rect, Stride and len(Pix) as they
		// were at the call), so they are stated once, as axioms included in every query that mentions the offset:
		// the spec side evaluates PixOffset in older states (prev(...)) whose facts would not reach the obligation.
		axiom := func(t Term) { vc.decl(fmt.Sprintf("(assert %s) ;anchor=%s", t.E, off.E)) }
		axiom(insideFact)
		// the row facts are only needed by code that walks along a row from a hoisted offset; they slow the
		// solvers down (multiplications), so they are left out of the first attempts
		axiom = func(t Term) { vc.decl(fmt.Sprintf("(assert %s) ;lazyanchor=%s", t.E, off.E)) }
		// The whole row of a y inside Rect lies within Pix (A-IMG): with rowstart = off - (x-Min.X)*bpp,
		// 0 <= rowstart <= rowstart + Dx*bpp <= len(Pix). Linear in the offsets (bpp is a constant), so code that
		// computes a row's first offset once and walks along the row stays provable.
		insideY := And(vc.iLe(mn.F[1].(Term), y, true), vc.iLt(y, mx.F[1].(Term), true))
		saneX := And(vc.iLe(vc.idx(-0x40000000), mn.F[0].(Term), true), vc.iLe(mn.F[0].(Term), mx.F[0].(Term), true), vc.iLe(mx.F[0].(Term), vc.idx(0x40000000), true),
			vc.iLe(vc.idx(-0x40000000), x, true), vc.iLe(x, vc.idx(0x40000000), true))
		rowstart := vc.iSub(off, vc.iMul(vc.iSub(x, mn.F[0].(Term)), vc.idx(bpp)))
		rowend := vc.iAdd(rowstart, vc.iMul(vc.iSub(mx.F[0].(Term), mn.F[0].(Term)), vc.idx(bpp)))
		axiom(Implies(And(insideY, saneX), And(vc.iLe(vc.idx(0), rowstart, true), vc.iLe(rowstart, rowend, true), vc.iLe(rowend, pix.Len, true))))
		// Offsets of the same image and the same row differ by bpp per column: a consequence of the defining
		// formula (no assumption), stated between this offset and the first one seen for that row.
		rowKey := fmt.Sprintf("pixrow|%d|%s|%s", p.Cell.ID, stride.E, y.E)
		if c, ok := vc.pureCache[rowKey]; ok {
			x0, off0 := c[0].(Term), c[1].(Term)
			axiom(Eq(off, vc.iAdd(off0, vc.iMul(vc.iSub(x, x0), vc.idx(bpp)))))
		} else {
			vc.pureCache[rowKey] = []Val{x, off}
		}
	}
	return one(st, off)
}


// planeOffset: YOffset/COffset of image.YCbCr are executed from the standard library source;
// A-IMG adds that for points inside Rect the offset indexes the plane(s).
// image.YCbCr{Y, Cb, Cr []uint8; YStride, CStride int; SubsampleRatio; Rect}
func (vc *VC) planeOffset(fr *Frame, st *State, args []Val, name string, planes []int) []Outcome {
	vc.assume("A-IMG")
	vc.assume("A-STDSRC")
	var fn *ssa.Function
	for f := range ssautilAllFunctions(vc.eng.prog) {
		if f.String() == name {
			fn = f
			break
		}
	}
	if fn == nil {
		panic(execError{"no SSA for " + name})
	}
	base := len(st.pc)
	w0 := st.extWrites
	pre := st.Clone()
	outs := vc.mergePure(pre, base, w0, vc.callFunction(fn, args, nil, st, fr))
	if len(outs) != 1 {
		return outs
	}
	o := outs[0]
	p := args[0].(PtrVal)
	img := vc.load(o.St, p).(StructVal)
	rect := img.F[6].(StructVal)
	mn, mx := rect.F[0].(StructVal), rect.F[1].(StructVal)
	x, y := args[1].(Term), args[2].(Term)
	inside := And(vc.iLe(mn.F[0].(Term), x, true), vc.iLt(x, mx.F[0].(Term), true), vc.iLe(mn.F[1].(Term), y, true), vc.iLt(y, mx.F[1].(Term), true))
	r := o.Ret[0].(Term)
	var cs []Term
	cs = append(cs, vc.iLe(vc.idx(0), r, true))
	for _, k := range planes {
		cs = append(cs, vc.iLt(r, img.F[k].(SliceVal).Len, true))
	}
	o.St.Fact(Implies(inside, And(cs...)))
	return []Outcome{o}
}
