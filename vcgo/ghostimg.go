package main

// Ghost pixel store of a symbolic draw.Image (an interface value whose dynamic type is unknown):
// `Set(x, y, c)` records c (converted to 16-bit RGBA by c.RGBA(), as every colour model's Convert
// starts from) under the key (x, y). Spec functions `was_set(img, x, y)` and `last_set(img, x, y)`
// read it; the generic path of linear.TransformImageColor is specified with them: each iteration
// calls dst.Set exactly at (j+dx, i+dy) with transformColor(src.At(j, i)) and touches no other key.

import (
	"fmt"
	"go/types"
)

type GhostImg struct {
	Ch  [4]Term // Array (_ BitVec 128) (_ BitVec 16): R, G, B, A of the last colour set
	Set Term    // Array (_ BitVec 128) Bool
}

func (vc *VC) ghostImgCell(st *State, si SymIface, create bool) *Cell {
	if vc.ghostImgs == nil {
		vc.ghostImgs = map[string]*Cell{}
	}
	c, ok := vc.ghostImgs[si.T.E]
	if !ok {
		if !create {
			return nil
		}
		c = vc.newCell("pixels("+si.T.E+")", "ext", nil)
		vc.ghostImgs[si.T.E] = c
	}
	if _, live := st.mem[c]; !live {
		if !create {
			return nil
		}
		key := BV(128)
		g := GhostImg{Set: vc.freshTerm("wasset", ArrSort(key, SBool))}
		for k, n := range []string{"r", "g", "b", "a"} {
			g.Ch[k] = vc.freshTerm("lastset."+n, ArrSort(key, BV(16)))
		}
		st.mem[c] = g
	}
	return c
}

func (vc *VC) pixelKey(x, y Term) Term {
	if x.S.K != KBV || y.S.K != KBV {
		panic(execError{"ghost pixel store needs bit-vector coordinates (ieee mode)"})
	}
	return Term{S: BV(128), E: fmt.Sprintf("(concat %s %s)", BVResize(x, 64, true, true).E, BVResize(y, 64, true, true).E)}
}

// hasSetMethod: the interface has Set(x, y int, c color.Color) (draw.Image)
func hasSetMethod(T types.Type) bool {
	it, ok := T.Underlying().(*types.Interface)
	if !ok {
		return false
	}
	for i := 0; i < it.NumMethods(); i++ {
		if it.Method(i).Name() == "Set" {
			return true
		}
	}
	return false
}

// ghostSet models img.Set(x, y, c) on a symbolic image; c must be a concrete color.RGBA64 value or a
// symbolic colour (then its RGBA() results are stored).
func (vc *VC) ghostSet(st *State, si SymIface, args []Val) {
	c := vc.ghostImgCell(st, si, true)
	g := st.mem[c].(GhostImg)
	x, y := args[0].(Term), args[1].(Term)
	key := vc.pixelKey(x, y)
	var ch [4]Term
	switch cv := args[2].(type) {
	case IfaceVal:
		sv, ok := cv.V.(StructVal)
		if !ok || len(sv.F) != 4 {
			panic(execError{fmt.Sprintf("Set with a colour of dynamic type %v is outside the supported subset", cv.Dyn)})
		}
		if !isNamed(cv.Dyn, "image/color", "RGBA64") {
			panic(execError{fmt.Sprintf("Set with a colour of dynamic type %v is outside the supported subset", cv.Dyn)})
		}
		for k := 0; k < 4; k++ {
			t, ok := sv.F[k].(Term)
			if !ok || t.S.K != KBV || t.S.N != 16 {
				panic(execError{"Set: colour channel is not a 16-bit vector"})
			}
			ch[k] = t
		}
	default:
		panic(execError{fmt.Sprintf("Set with a colour value %T is outside the supported subset", args[2])})
	}
	n := GhostImg{Set: Store(g.Set, key, TTrue())}
	for k := 0; k < 4; k++ {
		n.Ch[k] = Store(g.Ch[k], key, ch[k])
	}
	st.mem[c] = n
	st.extWrites++
	if vc.writeLog != nil {
		vc.writeLog[c] = true
	}
}
