package main

// SMT term layer: sorts, terms with light constant folding, smart constructors.

import (
	"fmt"
	"math"
	"math/big"
	"strings"
)

type SortKind int

const (
	KBool SortKind = iota
	KBV
	KInt
	KReal
	KFP
	KArr
	KOpaque
)

type Sort struct {
	K    SortKind
	N    int // BV width, or FP total bits (32/64)
	Idx  *Sort
	Elem *Sort
	Name string
}

var (
	SBool = Sort{K: KBool}
	SInt  = Sort{K: KInt}
	SReal = Sort{K: KReal}
	SF32  = Sort{K: KFP, N: 32}
	SF64  = Sort{K: KFP, N: 64}
	SErr  = Sort{K: KOpaque, Name: "Err"}
	SStr  = Sort{K: KOpaque, Name: "Str"}
)

func BV(n int) Sort { return Sort{K: KBV, N: n} }
func ArrSort(idx, elem Sort) Sort {
	i, e := idx, elem
	return Sort{K: KArr, Idx: &i, Elem: &e}
}
func OpaqueSort(name string) Sort { return Sort{K: KOpaque, Name: name} }

func (s Sort) Eq(o Sort) bool { return s.String() == o.String() }

func (s Sort) String() string {
	switch s.K {
	case KBool:
		return "Bool"
	case KBV:
		return fmt.Sprintf("(_ BitVec %d)", s.N)
	case KInt:
		return "Int"
	case KReal:
		return "Real"
	case KFP:
		if s.N == 32 {
			return "(_ FloatingPoint 8 24)"
		}
		return "(_ FloatingPoint 11 53)"
	case KArr:
		return fmt.Sprintf("(Array %s %s)", s.Idx.String(), s.Elem.String())
	case KOpaque:
		return s.Name
	}
	return "?"
}

// Term is an SMT term. C is set for constant BV/Int terms; Bc for constant Bool.
type Term struct {
	S      Sort
	E      string
	C      *big.Int
	Bc     *bool
	R      *big.Rat // constant Real (or exact value of an FP constant)
	Signed bool     // Go signedness for BV
	Conj   []Term   // conjuncts when built by And (used to split obligations)
	AddOf  string   // for (bvadd X c): the text of X
	AddC   *big.Int // and the constant c
	NonNil bool     // for Err / pointer-like opaque: known != nil
}

func (t Term) String() string { return t.E }
func (t Term) IsConst() bool  { return t.C != nil || t.Bc != nil || t.R != nil }

var bTrue, bFalse = true, false

func TTrue() Term  { return Term{S: SBool, E: "true", Bc: &bTrue} }
func TFalse() Term { return Term{S: SBool, E: "false", Bc: &bFalse} }
func TBool(b bool) Term {
	if b {
		return TTrue()
	}
	return TFalse()
}

func (t Term) IsTrue() bool  { return t.Bc != nil && *t.Bc }
func (t Term) IsFalse() bool { return t.Bc != nil && !*t.Bc }

func bvNorm(v *big.Int, n int) *big.Int {
	m := new(big.Int).Lsh(big.NewInt(1), uint(n))
	r := new(big.Int).Mod(v, m)
	if r.Sign() < 0 {
		r.Add(r, m)
	}
	return r
}

func bvSignedVal(v *big.Int, n int) *big.Int {
	h := new(big.Int).Lsh(big.NewInt(1), uint(n-1))
	if v.Cmp(h) >= 0 {
		return new(big.Int).Sub(v, new(big.Int).Lsh(big.NewInt(1), uint(n)))
	}
	return new(big.Int).Set(v)
}

func BVConst(v *big.Int, n int, signed bool) Term {
	u := bvNorm(v, n)
	var e string
	if n%4 == 0 {
		e = fmt.Sprintf("#x%0*s", n/4, u.Text(16))
	} else {
		e = fmt.Sprintf("#b%0*s", n, u.Text(2))
	}
	return Term{S: BV(n), E: e, C: u, Signed: signed}
}
func BVConstI(v int64, n int, signed bool) Term { return BVConst(big.NewInt(v), n, signed) }

func IntConst(v *big.Int) Term {
	var e string
	if v.Sign() < 0 {
		e = "(- " + new(big.Int).Neg(v).String() + ")"
	} else {
		e = v.String()
	}
	return Term{S: SInt, E: e, C: new(big.Int).Set(v)}
}

func ratSMT(r *big.Rat) string {
	neg := r.Sign() < 0
	a := new(big.Rat).Abs(r)
	var e string
	if a.IsInt() {
		e = a.Num().String() + ".0"
	} else {
		e = "(/ " + a.Num().String() + ".0 " + a.Denom().String() + ".0)"
	}
	if neg {
		e = "(- " + e + ")"
	}
	return e
}

func RealConst(r *big.Rat) Term {
	return Term{S: SReal, E: ratSMT(r), R: new(big.Rat).Set(r)}
}

func FP32Const(f float32) Term {
	b := math.Float32bits(f)
	e := fmt.Sprintf("(fp #b%01b #b%08b #b%023b)", b>>31, (b>>23)&0xff, b&0x7fffff)
	t := Term{S: SF32, E: e}
	if !math.IsNaN(float64(f)) && !math.IsInf(float64(f), 0) {
		t.R = new(big.Rat).SetFloat64(float64(f))
	}
	return t
}

func FP64Const(f float64) Term {
	b := math.Float64bits(f)
	e := fmt.Sprintf("(fp #b%01b #b%011b #b%052b)", b>>63, (b>>52)&0x7ff, b&0xfffffffffffff)
	t := Term{S: SF64, E: e}
	if !math.IsNaN(f) && !math.IsInf(f, 0) {
		t.R = new(big.Rat).SetFloat64(f)
	}
	return t
}

func app(op string, args ...Term) string {
	var sb strings.Builder
	sb.WriteString("(")
	sb.WriteString(op)
	for _, a := range args {
		sb.WriteString(" ")
		sb.WriteString(a.E)
	}
	sb.WriteString(")")
	return sb.String()
}

func Not(a Term) Term {
	if a.Bc != nil {
		return TBool(!*a.Bc)
	}
	if strings.HasPrefix(a.E, "(not ") {
		return Term{S: SBool, E: a.E[5 : len(a.E)-1]}
	}
	return Term{S: SBool, E: app("not", a)}
}

func And(ts ...Term) Term {
	var keep []Term
	for _, t := range ts {
		if t.IsFalse() {
			return TFalse()
		}
		if t.IsTrue() {
			continue
		}
		keep = append(keep, t)
	}
	if len(keep) == 0 {
		return TTrue()
	}
	if len(keep) == 1 {
		return keep[0]
	}
	return Term{S: SBool, E: app("and", keep...), Conj: keep}
}

func Or(ts ...Term) Term {
	var keep []Term
	for _, t := range ts {
		if t.IsTrue() {
			return TTrue()
		}
		if t.IsFalse() {
			continue
		}
		keep = append(keep, t)
	}
	if len(keep) == 0 {
		return TFalse()
	}
	if len(keep) == 1 {
		return keep[0]
	}
	return Term{S: SBool, E: app("or", keep...)}
}

func Implies(a, b Term) Term {
	if a.IsFalse() || b.IsTrue() {
		return TTrue()
	}
	if a.IsTrue() {
		return b
	}
	if b.IsFalse() {
		return Not(a)
	}
	return Term{S: SBool, E: app("=>", a, b)}
}

func Ite(c, a, b Term) Term {
	if c.IsTrue() {
		return a
	}
	if c.IsFalse() {
		return b
	}
	if a.E == b.E {
		return a
	}
	if a.S.K == KBool {
		if a.IsTrue() && b.IsFalse() {
			return c
		}
		if a.IsFalse() && b.IsTrue() {
			return Not(c)
		}
	}
	t := Term{S: a.S, E: app("ite", c, a, b), Signed: a.Signed}
	t.NonNil = a.NonNil && b.NonNil
	return t
}

func Eq(a, b Term) Term {
	if !a.S.Eq(b.S) {
		panic(fmt.Sprintf("Eq sort mismatch: %s : %s vs %s : %s", a.E, a.S, b.E, b.S))
	}
	if a.C != nil && b.C != nil {
		return TBool(a.C.Cmp(b.C) == 0)
	}
	if a.Bc != nil && b.Bc != nil {
		return TBool(*a.Bc == *b.Bc)
	}
	if a.S.K == KReal && a.R != nil && b.R != nil {
		return TBool(a.R.Cmp(b.R) == 0)
	}
	if a.E == b.E {
		return TTrue() // SMT equality is reflexive (also for FP: bitwise identity, single NaN)
	}
	if a.S.K == KBool {
		if a.IsTrue() {
			return b
		}
		if b.IsTrue() {
			return a
		}
		if a.IsFalse() {
			return Not(b)
		}
		if b.IsFalse() {
			return Not(a)
		}
	}
	return Term{S: SBool, E: app("=", a, b)}
}

// ---- bit-vector operations -------------------------------------------------

func bvBin(op string, a, b Term, f func(x, y *big.Int) *big.Int) Term {
	if a.S.K != KBV || !a.S.Eq(b.S) {
		panic(fmt.Sprintf("bv %s sort mismatch: %s:%s vs %s:%s", op, a.E, a.S, b.E, b.S))
	}
	if a.C != nil && b.C != nil && f != nil {
		if r := f(a.C, b.C); r != nil {
			return BVConst(r, a.S.N, a.Signed)
		}
	}
	return Term{S: a.S, E: app(op, a, b), Signed: a.Signed}
}

func BVAdd(a, b Term) Term {
	if b.C != nil && b.C.Sign() == 0 {
		return a
	}
	if a.C != nil && a.C.Sign() == 0 {
		return b
	}
	if a.C != nil && b.C == nil {
		a, b = b, a
	}
	// (X + c1) + c2 = X + (c1+c2): keeps ghost-chain indices in a normal form
	if b.C != nil && a.C == nil && a.S.K == KBV && a.S.Eq(b.S) {
		base, c := a.E, new(big.Int)
		if a.AddOf != "" {
			base, c = a.AddOf, new(big.Int).Set(a.AddC)
		}
		sum := bvNorm(new(big.Int).Add(c, b.C), a.S.N)
		if sum.Sign() == 0 {
			return Term{S: a.S, E: base, Signed: a.Signed}
		}
		k := BVConst(sum, a.S.N, a.Signed)
		return Term{S: a.S, E: "(bvadd " + base + " " + k.E + ")", Signed: a.Signed, AddOf: base, AddC: sum}
	}
	return bvBin("bvadd", a, b, func(x, y *big.Int) *big.Int { return new(big.Int).Add(x, y) })
}
func BVSub(a, b Term) Term {
	if b.C != nil && b.C.Sign() == 0 {
		return a
	}
	return bvBin("bvsub", a, b, func(x, y *big.Int) *big.Int { return new(big.Int).Sub(x, y) })
}
func BVMul(a, b Term) Term {
	if b.C != nil && b.C.Cmp(big.NewInt(1)) == 0 {
		return a
	}
	if a.C != nil && a.C.Cmp(big.NewInt(1)) == 0 {
		return b
	}
	return bvBin("bvmul", a, b, func(x, y *big.Int) *big.Int { return new(big.Int).Mul(x, y) })
}
func BVAnd(a, b Term) Term {
	return bvBin("bvand", a, b, func(x, y *big.Int) *big.Int { return new(big.Int).And(x, y) })
}
func BVOr(a, b Term) Term {
	return bvBin("bvor", a, b, func(x, y *big.Int) *big.Int { return new(big.Int).Or(x, y) })
}
func BVXor(a, b Term) Term {
	return bvBin("bvxor", a, b, func(x, y *big.Int) *big.Int { return new(big.Int).Xor(x, y) })
}
func BVAndNot(a, b Term) Term {
	return BVAnd(a, BVNot(b))
}
func BVNot(a Term) Term {
	if a.C != nil {
		m := new(big.Int).Lsh(big.NewInt(1), uint(a.S.N))
		m.Sub(m, big.NewInt(1))
		return BVConst(new(big.Int).Xor(a.C, m), a.S.N, a.Signed)
	}
	return Term{S: a.S, E: app("bvnot", a), Signed: a.Signed}
}
func BVNeg(a Term) Term {
	if a.C != nil {
		return BVConst(new(big.Int).Neg(a.C), a.S.N, a.Signed)
	}
	return Term{S: a.S, E: app("bvneg", a), Signed: a.Signed}
}

// division/remainder: caller guarantees divisor != 0 (obligation emitted separately)
func BVDiv(a, b Term, signed bool) Term {
	if a.C != nil && b.C != nil && b.C.Sign() != 0 {
		if signed {
			x, y := bvSignedVal(a.C, a.S.N), bvSignedVal(b.C, b.S.N)
			return BVConst(new(big.Int).Quo(x, y), a.S.N, true)
		}
		return BVConst(new(big.Int).Quo(a.C, b.C), a.S.N, false)
	}
	if signed {
		return Term{S: a.S, E: app("bvsdiv", a, b), Signed: true}
	}
	return Term{S: a.S, E: app("bvudiv", a, b)}
}
func BVRem(a, b Term, signed bool) Term {
	if a.C != nil && b.C != nil && b.C.Sign() != 0 {
		if signed {
			x, y := bvSignedVal(a.C, a.S.N), bvSignedVal(b.C, b.S.N)
			return BVConst(new(big.Int).Rem(x, y), a.S.N, true)
		}
		return BVConst(new(big.Int).Rem(a.C, b.C), a.S.N, false)
	}
	if signed {
		return Term{S: a.S, E: app("bvsrem", a, b), Signed: true}
	}
	return Term{S: a.S, E: app("bvurem", a, b)}
}

// Shifts: Go semantics (shift count >= width gives 0 / sign fill) coincide with SMT-LIB
// bvshl/bvlshr/bvashr when the count is resized to the operand width with saturation.
func BVShl(a, cnt Term) Term {
	c := resizeShiftCount(cnt, a.S.N)
	if a.C != nil && c.C != nil {
		if c.C.Cmp(big.NewInt(int64(a.S.N))) >= 0 {
			return BVConstI(0, a.S.N, a.Signed)
		}
		return BVConst(new(big.Int).Lsh(a.C, uint(c.C.Uint64())), a.S.N, a.Signed)
	}
	return Term{S: a.S, E: app("bvshl", a, c), Signed: a.Signed}
}
func BVShr(a, cnt Term, signed bool) Term {
	c := resizeShiftCount(cnt, a.S.N)
	if a.C != nil && c.C != nil {
		n := a.S.N
		sh := c.C.Uint64()
		if c.C.Cmp(big.NewInt(int64(n))) >= 0 {
			sh = uint64(n)
		}
		if signed {
			return BVConst(new(big.Int).Rsh(bvSignedVal(a.C, n), uint(sh)), n, true)
		}
		return BVConst(new(big.Int).Rsh(a.C, uint(sh)), n, false)
	}
	if signed {
		return Term{S: a.S, E: app("bvashr", a, c), Signed: true}
	}
	return Term{S: a.S, E: app("bvlshr", a, c)}
}

// resizeShiftCount converts an (unsigned or known non-negative) count to width n, saturating.
func resizeShiftCount(cnt Term, n int) Term {
	if cnt.S.N == n {
		return cnt
	}
	if cnt.C != nil {
		v := cnt.C
		if v.Cmp(big.NewInt(int64(n))) > 0 {
			v = big.NewInt(int64(n))
		}
		return BVConst(v, n, false)
	}
	if cnt.S.N < n {
		return ZeroExt(cnt, n)
	}
	// wider: saturate
	lim := BVConstI(int64(n), cnt.S.N, false)
	return Ite(BVUlt(cnt, lim), Extract(cnt, n-1, 0), BVConstI(int64(n), n, false))
}

func cmpConst(a, b Term, signed bool) (int, bool) {
	if a.C == nil || b.C == nil {
		return 0, false
	}
	if signed {
		return bvSignedVal(a.C, a.S.N).Cmp(bvSignedVal(b.C, b.S.N)), true
	}
	return a.C.Cmp(b.C), true
}

func BVLt(a, b Term, signed bool) Term {
	if c, ok := cmpConst(a, b, signed); ok {
		return TBool(c < 0)
	}
	if !a.S.Eq(b.S) {
		panic(fmt.Sprintf("BVLt sort mismatch %s:%s %s:%s", a.E, a.S, b.E, b.S))
	}
	if signed {
		return Term{S: SBool, E: app("bvslt", a, b)}
	}
	return Term{S: SBool, E: app("bvult", a, b)}
}
func BVLe(a, b Term, signed bool) Term {
	if c, ok := cmpConst(a, b, signed); ok {
		return TBool(c <= 0)
	}
	if !a.S.Eq(b.S) {
		panic(fmt.Sprintf("BVLe sort mismatch %s:%s %s:%s", a.E, a.S, b.E, b.S))
	}
	if signed {
		return Term{S: SBool, E: app("bvsle", a, b)}
	}
	return Term{S: SBool, E: app("bvule", a, b)}
}
func BVUlt(a, b Term) Term { return BVLt(a, b, false) }
func BVUle(a, b Term) Term { return BVLe(a, b, false) }
func BVSlt(a, b Term) Term { return BVLt(a, b, true) }
func BVSle(a, b Term) Term { return BVLe(a, b, true) }

func Extract(a Term, hi, lo int) Term {
	if hi-lo+1 == a.S.N {
		return a
	}
	if a.C != nil {
		v := new(big.Int).Rsh(a.C, uint(lo))
		return BVConst(v, hi-lo+1, false)
	}
	return Term{S: BV(hi - lo + 1), E: fmt.Sprintf("((_ extract %d %d) %s)", hi, lo, a.E)}
}
func ZeroExt(a Term, n int) Term {
	if n == a.S.N {
		return a
	}
	if a.C != nil {
		return BVConst(a.C, n, false)
	}
	return Term{S: BV(n), E: fmt.Sprintf("((_ zero_extend %d) %s)", n-a.S.N, a.E)}
}
func SignExt(a Term, n int) Term {
	if n == a.S.N {
		return a
	}
	if a.C != nil {
		return BVConst(bvSignedVal(a.C, a.S.N), n, true)
	}
	return Term{S: BV(n), E: fmt.Sprintf("((_ sign_extend %d) %s)", n-a.S.N, a.E), Signed: true}
}
func Concat(a, b Term) Term {
	if a.C != nil && b.C != nil {
		v := new(big.Int).Lsh(a.C, uint(b.S.N))
		v.Or(v, b.C)
		return BVConst(v, a.S.N+b.S.N, false)
	}
	return Term{S: BV(a.S.N + b.S.N), E: app("concat", a, b)}
}

// BVResize converts between integer widths with Go conversion semantics
// (truncate, or extend according to the SOURCE signedness).
func BVResize(a Term, n int, srcSigned, dstSigned bool) Term {
	var r Term
	switch {
	case n == a.S.N:
		r = a
	case n < a.S.N:
		r = Extract(a, n-1, 0)
	case srcSigned:
		r = SignExt(a, n)
	default:
		r = ZeroExt(a, n)
	}
	r.Signed = dstSigned
	return r
}

// ---- arrays -------------------------------------------------------------------

func Select(a, i Term) Term {
	if a.S.K != KArr {
		panic("select on non-array " + a.E)
	}
	if !a.S.Idx.Eq(i.S) {
		panic(fmt.Sprintf("select index sort mismatch: %s vs %s", a.S.Idx, i.S))
	}
	return Term{S: *a.S.Elem, E: app("select", a, i)}
}
func Store(a, i, v Term) Term {
	if !a.S.Idx.Eq(i.S) || !a.S.Elem.Eq(v.S) {
		panic(fmt.Sprintf("store sort mismatch: %s [%s] <- %s", a.S, i.S, v.S))
	}
	return Term{S: a.S, E: app("store", a, i, v)}
}
func ConstArray(s Sort, v Term) Term {
	return Term{S: s, E: fmt.Sprintf("((as const %s) %s)", s.String(), v.E)}
}

// ---- Int / Real -----------------------------------------------------------------

func arith(op string, s Sort, ts ...Term) Term { return Term{S: s, E: app(op, ts...)} }

func NumAdd(a, b Term) Term {
	if a.S.K == KReal && a.R != nil && b.R != nil {
		return RealConst(new(big.Rat).Add(a.R, b.R))
	}
	if a.S.K == KInt && a.C != nil && b.C != nil {
		return IntConst(new(big.Int).Add(a.C, b.C))
	}
	return arith("+", a.S, a, b)
}
func NumSub(a, b Term) Term {
	if a.S.K == KReal && a.R != nil && b.R != nil {
		return RealConst(new(big.Rat).Sub(a.R, b.R))
	}
	if a.S.K == KInt && a.C != nil && b.C != nil {
		return IntConst(new(big.Int).Sub(a.C, b.C))
	}
	return arith("-", a.S, a, b)
}
func NumMul(a, b Term) Term {
	if a.S.K == KReal && a.R != nil && b.R != nil {
		return RealConst(new(big.Rat).Mul(a.R, b.R))
	}
	if a.S.K == KInt && a.C != nil && b.C != nil {
		return IntConst(new(big.Int).Mul(a.C, b.C))
	}
	return arith("*", a.S, a, b)
}
func RealDiv(a, b Term) Term {
	if a.R != nil && b.R != nil && b.R.Sign() != 0 {
		return RealConst(new(big.Rat).Quo(a.R, b.R))
	}
	return arith("/", SReal, a, b)
}
func NumNeg(a Term) Term {
	if a.S.K == KReal && a.R != nil {
		return RealConst(new(big.Rat).Neg(a.R))
	}
	if a.S.K == KInt && a.C != nil {
		return IntConst(new(big.Int).Neg(a.C))
	}
	return arith("-", a.S, a)
}
func NumCmp(op string, a, b Term) Term {
	if a.S.K == KReal && a.R != nil && b.R != nil {
		c := a.R.Cmp(b.R)
		return TBool(cmpOp(op, c))
	}
	if a.S.K == KInt && a.C != nil && b.C != nil {
		return TBool(cmpOp(op, a.C.Cmp(b.C)))
	}
	return Term{S: SBool, E: app(op, a, b)}
}
func cmpOp(op string, c int) bool {
	switch op {
	case "<":
		return c < 0
	case "<=":
		return c <= 0
	case ">":
		return c > 0
	case ">=":
		return c >= 0
	}
	panic(op)
}

func BV2Int(a Term, signed bool) Term {
	if a.C != nil {
		if signed {
			return IntConst(bvSignedVal(a.C, a.S.N))
		}
		return IntConst(a.C)
	}
	u := Term{S: SInt, E: app("bv2nat", a)}
	if !signed {
		return u
	}
	h := new(big.Int).Lsh(big.NewInt(1), uint(a.S.N))
	return Ite(BVSlt(a, BVConstI(0, a.S.N, true)), NumSub(u, IntConst(h)), u)
}
func Int2Real(a Term) Term {
	if a.C != nil {
		return RealConst(new(big.Rat).SetInt(a.C))
	}
	return Term{S: SReal, E: app("to_real", a)}
}

// ---- floating point ------------------------------------------------------------

func fpConstOf(s Sort, f float64) Term {
	if s.N == 32 {
		return FP32Const(float32(f))
	}
	return FP64Const(f)
}

func fpVal(t Term) (float64, bool) {
	if t.S.K != KFP || t.R == nil {
		return 0, false
	}
	f, _ := t.R.Float64()
	return f, true
}

func isFPOne(t Term) bool {
	f, ok := fpVal(t)
	return ok && f == 1
}

// FPBin folds operations on finite constants using Go's IEEE arithmetic (A-IEEE) and the
// exact identities x/1 = x and x*1 = x.
func FPBin(op string, a, b Term) Term {
	if !a.S.Eq(b.S) {
		panic(fmt.Sprintf("fp %s sort mismatch %s vs %s", op, a.S, b.S))
	}
	if (op == "fp.div" || op == "fp.mul") && isFPOne(b) {
		return a
	}
	if op == "fp.mul" && isFPOne(a) {
		return b
	}
	if x, ok := fpVal(a); ok {
		if y, ok := fpVal(b); ok && !(x == 0 && y == 0) {
			var r float64
			valid := true
			if a.S.N == 32 {
				x32, y32 := float32(x), float32(y)
				var r32 float32
				switch op {
				case "fp.add":
					r32 = x32 + y32
				case "fp.sub":
					r32 = x32 - y32
				case "fp.mul":
					r32 = x32 * y32
				case "fp.div":
					if y32 == 0 {
						valid = false
					} else {
						r32 = x32 / y32
					}
				default:
					valid = false
				}
				r = float64(r32)
			} else {
				switch op {
				case "fp.add":
					r = x + y
				case "fp.sub":
					r = x - y
				case "fp.mul":
					r = x * y
				case "fp.div":
					if y == 0 {
						valid = false
					} else {
						r = x / y
					}
				default:
					valid = false
				}
			}
			if valid && !math.IsInf(r, 0) && !math.IsNaN(r) && r != 0 {
				return fpConstOf(a.S, r)
			}
		}
	}
	return Term{S: a.S, E: "(" + op + " RNE " + a.E + " " + b.E + ")"}
}
func FPNeg(a Term) Term { return Term{S: a.S, E: app("fp.neg", a)} }
func FPCmp(op string, a, b Term) Term {
	if !a.S.Eq(b.S) {
		panic(fmt.Sprintf("fp %s sort mismatch %s vs %s", op, a.S, b.S))
	}
	return Term{S: SBool, E: app(op, a, b)}
}
func FPToFP(a Term, to Sort) Term {
	if a.S.Eq(to) {
		return a
	}
	eb, sb := 8, 24
	if to.N == 64 {
		eb, sb = 11, 53
	}
	return Term{S: to, E: fmt.Sprintf("((_ to_fp %d %d) RNE %s)", eb, sb, a.E)}
}
func BVToFP(a Term, signed bool, to Sort) Term {
	if a.C != nil {
		v := a.C
		if signed {
			v = bvSignedVal(a.C, a.S.N)
		}
		if v.Sign() != 0 && v.BitLen() <= 63 {
			if to.N == 32 {
				return FP32Const(float32(v.Int64()))
			}
			return FP64Const(float64(v.Int64()))
		}
	}
	eb, sb := 8, 24
	if to.N == 64 {
		eb, sb = 11, 53
	}
	if signed {
		return Term{S: to, E: fmt.Sprintf("((_ to_fp %d %d) RNE %s)", eb, sb, a.E)}
	}
	return Term{S: to, E: fmt.Sprintf("((_ to_fp_unsigned %d %d) RNE %s)", eb, sb, a.E)}
}
func FPToReal(a Term) Term { return Term{S: SReal, E: app("fp.to_real", a)} }
