package main

import "fmt"

func debugFn(eng *Engine, key string) {
	fn := eng.fnByKey[key]
	fmt.Println(fn, fn.Pkg, fn.Synthetic, eng.modPath)
	for _, b := range fn.Blocks {
		for _, ins := range b.Instrs {
			fmt.Println(ins.String())
		}
	}
}

func debugLoops(eng *Engine, key string) {
	fn := eng.fnByKey[key]
	eng.loopInfo(fn, fn.Blocks[0])
	for _, l := range eng.loops[fn] {
		fmt.Printf("loop %d header block %d (%s) at %s, body %d blocks\n", l.Ordinal, l.Header.Index, l.Header.Comment, eng.fset.Position(blockPos(l.Header)), len(l.Body))
		for _, ins := range l.Header.Instrs {
			fmt.Println("    ", ins.String())
		}
	}
}
