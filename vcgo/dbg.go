package main

import "fmt"

func debugFn(eng *Engine, key string) {
	fn := eng.fnByKey[key]
	fmt.Println(fn, fn.Pkg, fn.Synthetic, eng.modPath)
	for _, b := range fn.Blocks {
		for _, ins := range b.Instrs {
			fmt.Println(ins.String())
		}
	}
}
