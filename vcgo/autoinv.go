package main

// Automatic loop contracts for simple counting loops that have no contract (typically a loop that a
// refactor moved into a new helper). Candidates are generated from the loop's shape and filtered by a
// Houdini iteration (drop every candidate that is not established at entry or not preserved by the body,
// decided with a quick solver call on a dry run of the body); the survivors become the loop's invariants
// and are then proved again by the ordinary inv-init / inv-pres obligations, so a wrong candidate can at
// worst cost an alarm, never a proof.
//
//   for v := a; v < b; v++ { ... }      candidates:  a <= v;   a <= b ==> v <= b;   decreases b - v
//   stream S read in the body           candidates:  S.pos == S.pos@entry + k*(v - a)  for k in 1,2,3,4,8

import (
	"context"
	"fmt"
	"go/token"
	"os"
	"path/filepath"

	"golang.org/x/tools/go/ssa"
)

type autoCand struct {
	label string
	eval  func(fr *Frame, st *State) Term
}

type houdiniHook struct {
	header *ssa.BasicBlock
	fn     *ssa.Function
	onBack func(fr *Frame, st *State)
}

// quickValid: is goal a consequence of the state's path condition? (z3 5.1, 10 s, full assumption set)
func (vc *VC) quickValid(st *State, goal Term) bool {
	if goal.IsTrue() {
		return true
	}
	if st.Infeasible() {
		return true
	}
	o := &Obligation{Func: vc.curFunc, Kind: "auto", Label: "houdini", Mode: vc.mode.Name, Goal: goal, NDecl: len(vc.decls), vc: vc}
	o.Assumes = append([]Term(nil), st.pc...)
	dir, err := os.MkdirTemp("", "vcgo-auto-")
	if err != nil {
		return false
	}
	defer os.RemoveAll(dir)
	file := filepath.Join(dir, "q.smt2")
	os.WriteFile(file, []byte(o.SMTFull(false)), 0o644)
	r := runSolver(context.Background(), solvers[0], file, 10)
	return r.Result == "unsat"
}

// autoLoopContract returns a contract for the loop headed by `header`, or nil when the loop does not
// have the supported shape.
func (vc *VC) autoLoopContract(fr *Frame, st *State, li *LoopInfo, header *ssa.BasicBlock, phis []*ssa.Phi, phiVals []Val) *LoopContract {
	if vc.autoBusy {
		return nil
	}
	shape := vc.dry == 0
	// the header ends in `if v < b` with v a header phi stepping by +1 on the back edge
	ifi, ok := header.Instrs[len(header.Instrs)-1].(*ssa.If)
	if !ok {
		return nil
	}
	cmp, ok := ifi.Cond.(*ssa.BinOp)
	if !ok || cmp.Op != token.LSS {
		return nil
	}
	var ind *ssa.Phi
	var indIdx int
	for i, p := range phis {
		if cmp.X == p {
			ind, indIdx = p, i
		}
	}
	if ind == nil {
		return nil
	}
	stepsByOne := false
	for k, e := range ind.Edges {
		if header.Preds[k] != nil && header.Dominates(header.Preds[k]) {
			if b, ok := e.(*ssa.BinOp); ok && b.Op == token.ADD && b.X == ind {
				if c, ok := b.Y.(*ssa.Const); ok && c.Value != nil && c.Value.String() == "1" {
					stepsByOne = true
				}
			}
		}
	}
	if !stepsByOne {
		return nil
	}
	// the bound must be defined outside the loop, or be len(s) of a slice/string value defined outside it
	var bv Term
	haveBound := false
	if bi, ok := cmp.Y.(ssa.Instruction); ok && li.Body[bi.Block()] {
		call, isCall := cmp.Y.(*ssa.Call)
		if !isCall || len(call.Call.Args) != 1 {
			return nil
		}
		if b, isB := call.Call.Value.(*ssa.Builtin); !isB || b.Name() != "len" {
			return nil
		}
		if ai, ok := call.Call.Args[0].(ssa.Instruction); ok && li.Body[ai.Block()] {
			return nil
		}
		sv, isSlice := vc.val(fr, st, call.Call.Args[0]).(SliceVal)
		if !isSlice {
			return nil
		}
		bv, haveBound = sv.Len, true
	}
	a, ok := phiVals[indIdx].(Term)
	if !ok {
		return nil
	}
	if !haveBound {
		bv, ok = vc.val(fr, st, cmp.Y).(Term)
		if !ok {
			return nil
		}
	}
	signed := isSigned(ind.Type())
	if a.C != nil && bv.C != nil {
		return nil // constant trip count: unrolled as before
	}
	if !shape {
		// inside a dry run (an enclosing loop's modified-cell analysis): cutting the loop with havoc alone is enough
		return &LoopContract{}
	}
	vc.autoBusy = true
	defer func() { vc.autoBusy = false }()
	cur := func(f *Frame) Term { return f.env[ind].(Term) }
	var cands []autoCand
	cands = append(cands, autoCand{"counter-from-start", func(f *Frame, s *State) Term { return vc.iLe(a, cur(f), signed) }})
	cands = append(cands, autoCand{"counter-up-to-bound", func(f *Frame, s *State) Term {
		return Implies(vc.iLe(a, bv, signed), vc.iLe(cur(f), bv, signed))
	}})
	// streams written in the loop: consumed bytes proportional to the counter
	mod := vc.loopModified(fr, st, li, header, len(phis))
	for _, c := range mod {
		s0, ok := st.mem[c].(Stream)
		if !ok {
			continue
		}
		c := c
		p0 := s0.Pos
		for _, k := range []int64{1, 2, 3, 4, 8} {
			k := k
			cands = append(cands, autoCand{fmt.Sprintf("stream-%s-consumed-%d-per-iteration", sanitize(c.Name), k), func(f *Frame, s *State) Term {
				sv, ok := s.mem[c].(Stream)
				if !ok {
					return TFalse()
				}
				d := vc.toIndex(vc.iSub(cur(f), a), ind.Type())
				return Eq(sv.Pos, vc.iAdd(p0, vc.iMul(vc.idx(k), d)))
			}})
		}
	}
	// ---- Houdini ------------------------------------------------------------------------------
	alive := make([]bool, len(cands))
	for i, c := range cands {
		// entry: the phis hold their initial values
		f0 := fr.Clone()
		for j, p := range phis {
			f0.env[p] = phiVals[j]
		}
		alive[i] = vc.quickValid(st, c.eval(f0, st))
	}
	for round := 0; round < 6; round++ {
		dropped := false
		f2, s2 := fr.Clone(), st.Clone()
		f2.loopIn = map[*ssa.BasicBlock]bool{}
		for k, v := range fr.loopIn {
			f2.loopIn[k] = v
		}
		f2.defers = nil
		f2.loopIn[header] = true
		for _, p := range phis {
			f2.env[p] = vc.havocVal(phiVals[indexOfPhi(phis, p)], p.Type(), "auto", s2)
		}
		for _, c := range mod {
			vc.havocCell(s2, c)
		}
		for i, c := range cands {
			if alive[i] {
				s2.Fact(c.eval(f2, s2))
			}
		}
		hook := &houdiniHook{header: header, fn: fr.fn}
		hook.onBack = func(fb *Frame, sb *State) {
			for i, c := range cands {
				if alive[i] && !vc.quickValid(sb, c.eval(fb, sb)) {
					alive[i] = false
					dropped = true
				}
			}
		}
		oldHook := vc.houdini
		vc.houdini = hook
		saved := vc.writeLog
		vc.writeLog = map[*Cell]bool{}
		vc.dry++
		func() {
			defer func() {
				if r := recover(); r != nil {
					if _, ok := r.(execError); ok {
						return
					}
					if _, ok := r.(specError); ok {
						return
					}
					panic(r)
				}
			}()
			vc.dryBody(f2, s2, li, header, len(phis))
		}()
		vc.dry--
		vc.writeLog = saved
		vc.houdini = oldHook
		if !dropped {
			break
		}
	}
	lc := &LoopContract{Props: vc.curProps}
	n := 0
	for i, c := range cands {
		if !alive[i] {
			continue
		}
		c := c
		n++
		lc.Invariants = append(lc.Invariants, &Clause{Kind: "invariant", Label: "auto:" + c.label, Props: vc.curProps,
			Expr: &SpecExpr{Kind: "native", Src: "auto:" + c.label, Native: func(env *SpecEnv) Term { return c.eval(env.fr, env.st) }}})
	}
	if n == 0 {
		return nil
	}
	lc.Decreases = &SpecExpr{Kind: "native", Src: "auto:bound-minus-counter", Native: func(env *SpecEnv) Term {
		return vc.toIndex(vc.iSub(bv, cur(env.fr)), ind.Type())
	}}
	vc.notes = append(vc.notes, fmt.Sprintf("loop %d of %s has no contract: %d automatically found invariant(s) are used and proved", li.Ordinal, fr.fn.Name(), n))
	return lc
}

func indexOfPhi(phis []*ssa.Phi, p *ssa.Phi) int {
	for i, q := range phis {
		if q == p {
			return i
		}
	}
	return 0
}
